#include "ref_argon2.hpp"
#include "ref_blake2b.hpp"
#include <cstring>

namespace ref {

static void le32(std::vector<uint8_t>& v, uint32_t x) { for (int i = 0; i < 4; ++i) v.push_back((uint8_t)(x >> (8 * i))); }
static uint64_t rd64(const uint8_t* p) { uint64_t v = 0; for (int i = 7; i >= 0; --i) v = (v << 8) | p[i]; return v; }
static void wr64(uint8_t* p, uint64_t v) { for (int i = 0; i < 8; ++i) p[i] = (uint8_t)(v >> (8 * i)); }

void argon2Hprime(uint8_t* out, uint32_t T, const uint8_t* in, size_t inLen) {
	std::vector<uint8_t> buf; le32(buf, T); buf.insert(buf.end(), in, in + inLen);
	if (T <= 64) { b2b(out, T, buf.data(), buf.size()); return; }
	uint32_t r = (T + 31) / 32 - 2;
	uint8_t V[64];
	b2b(V, 64, buf.data(), buf.size());
	memcpy(out, V, 32);
	for (uint32_t i = 2; i <= r; ++i) { uint8_t t[64]; b2b(t, 64, V, 64); memcpy(V, t, 64); memcpy(out + 32 * (i - 1), V, 32); }
	uint32_t last = T - 32 * r;
	uint8_t t[64]; b2b(t, last, V, 64);
	memcpy(out + 32 * r, t, last);
}

static inline uint64_t rotr(uint64_t x, int n) { return (x >> n) | (x << (64 - n)); }
static inline void GB(uint64_t& a, uint64_t& b, uint64_t& c, uint64_t& d) {
	auto lo = [](uint64_t x) { return x & 0xffffffffULL; };
	a = a + b + 2 * lo(a) * lo(b); d = rotr(d ^ a, 32);
	c = c + d + 2 * lo(c) * lo(d); b = rotr(b ^ c, 24);
	a = a + b + 2 * lo(a) * lo(b); d = rotr(d ^ a, 16);
	c = c + d + 2 * lo(c) * lo(d); b = rotr(b ^ c, 63);
}
static void Pperm(uint64_t* v[16]) {
	GB(*v[0], *v[4], *v[8], *v[12]); GB(*v[1], *v[5], *v[9], *v[13]); GB(*v[2], *v[6], *v[10], *v[14]); GB(*v[3], *v[7], *v[11], *v[15]);
	GB(*v[0], *v[5], *v[10], *v[15]); GB(*v[1], *v[6], *v[11], *v[12]); GB(*v[2], *v[7], *v[8], *v[13]); GB(*v[3], *v[4], *v[9], *v[14]);
}
// compression function G (RFC 9106 3.5): out = Z xor R, R = X xor Y
static void G(const uint64_t X[128], const uint64_t Y[128], uint64_t out[128]) {
	uint64_t R[128], Z[128];
	for (int i = 0; i < 128; ++i) Z[i] = R[i] = X[i] ^ Y[i];
	for (int row = 0; row < 8; ++row) { uint64_t* v[16]; for (int k = 0; k < 16; ++k) v[k] = &Z[16 * row + k]; Pperm(v); }
	for (int col = 0; col < 8; ++col) { uint64_t* v[16]; for (int k = 0; k < 8; ++k) { v[2 * k] = &Z[16 * k + 2 * col]; v[2 * k + 1] = &Z[16 * k + 2 * col + 1]; } Pperm(v); }
	for (int i = 0; i < 128; ++i) out[i] = Z[i] ^ R[i];
}

uint32_t argon2dFill(const Argon2Params& p, std::vector<uint8_t>& memory) {
	const uint32_t lanes = p.lanes;
	const uint32_t mPrime = 4 * lanes * (p.memoryKiB / (4 * lanes));
	const uint32_t q = mPrime / lanes, segLen = q / 4;
	// H0
	std::vector<uint8_t> h; le32(h, lanes); le32(h, p.tagLength); le32(h, p.memoryKiB); le32(h, p.passes); le32(h, p.version); le32(h, p.type);
	le32(h, (uint32_t)p.password.size()); h.insert(h.end(), p.password.begin(), p.password.end());
	le32(h, (uint32_t)p.salt.size()); h.insert(h.end(), p.salt.begin(), p.salt.end());
	le32(h, (uint32_t)p.secret.size()); h.insert(h.end(), p.secret.begin(), p.secret.end());
	le32(h, (uint32_t)p.ad.size()); h.insert(h.end(), p.ad.begin(), p.ad.end());
	uint8_t H0[64 + 8]; b2b(H0, 64, h.data(), h.size());
	std::vector<uint64_t> B((size_t)mPrime * 128);
	auto blk = [&](uint32_t lane, uint32_t col) -> uint64_t* { return &B[((size_t)lane * q + col) * 128]; };
	for (uint32_t l = 0; l < lanes; ++l) for (uint32_t j = 0; j < 2; ++j) {
		for (int i = 0; i < 4; ++i) { H0[64 + i] = (uint8_t)(j >> (8 * i)); H0[68 + i] = (uint8_t)(l >> (8 * i)); }
		uint8_t raw[1024]; argon2Hprime(raw, 1024, H0, 72);
		for (int i = 0; i < 128; ++i) blk(l, j)[i] = rd64(raw + 8 * i);
	}
	for (uint32_t pass = 0; pass < p.passes; ++pass) for (uint32_t slice = 0; slice < 4; ++slice) for (uint32_t lane = 0; lane < lanes; ++lane) {
		for (uint32_t idx = (pass == 0 && slice == 0) ? 2 : 0; idx < segLen; ++idx) {
			uint32_t col = slice * segLen + idx;
			uint32_t prevCol = col == 0 ? q - 1 : col - 1;
			uint64_t pseudo = blk(lane, prevCol)[0];          // Argon2d: data dependent addressing
			uint32_t J1 = (uint32_t)pseudo, J2 = (uint32_t)(pseudo >> 32);
			uint32_t refLane = (pass == 0 && slice == 0) ? lane : J2 % lanes;
			bool same = refLane == lane;
			// size of the reference area W (RFC 9106 3.4.1.1 / 3.4.2)
			uint32_t area;
			if (pass == 0) area = slice * segLen + (same ? idx - 1 : (idx == 0 ? (uint32_t)-1 : 0));
			else area = q - segLen + (same ? idx - 1 : (idx == 0 ? (uint32_t)-1 : 0));
			uint64_t x = ((uint64_t)J1 * J1) >> 32;
			uint64_t y = ((uint64_t)area * x) >> 32;
			uint64_t rel = (uint64_t)area - 1 - y;
			uint32_t start = (pass == 0 || slice == 3) ? 0 : (slice + 1) * segLen;
			uint32_t refCol = (uint32_t)((start + rel) % q);
			uint64_t out[128];
			G(blk(lane, prevCol), blk(refLane, refCol), out);
			uint64_t* cur = blk(lane, col);
			if (pass == 0 || p.version == 0x10) for (int i = 0; i < 128; ++i) cur[i] = out[i];
			else for (int i = 0; i < 128; ++i) cur[i] ^= out[i];
		}
	}
	memory.resize((size_t)mPrime * 1024);
	for (size_t i = 0; i < B.size(); ++i) wr64(&memory[8 * i], B[i]);
	return mPrime;
}

std::vector<uint8_t> argon2Finalize(const Argon2Params& p, const std::vector<uint8_t>& memory) {
	const uint32_t mPrime = (uint32_t)(memory.size() / 1024), q = mPrime / p.lanes;
	uint8_t C[1024]; memset(C, 0, sizeof C);
	for (uint32_t l = 0; l < p.lanes; ++l) { const uint8_t* last = &memory[((size_t)l * q + q - 1) * 1024]; for (int i = 0; i < 1024; ++i) C[i] ^= last[i]; }
	std::vector<uint8_t> tag(p.tagLength);
	argon2Hprime(tag.data(), p.tagLength, C, 1024);
	return tag;
}

} // namespace ref
