#include "ref_aes.hpp"
#include "ref_blake2b.hpp"
#include <cstring>

namespace ref {

static uint8_t gmulSlow(uint8_t a, uint8_t b) {
	uint8_t p = 0;
	for (int i = 0; i < 8; ++i) {
		if (b & 1) p ^= a;
		bool hi = a & 0x80;
		a <<= 1;
		if (hi) a ^= 0x1b;   // x^8 + x^4 + x^3 + x + 1
		b >>= 1;
	}
	return p;
}

uint8_t gmul(uint8_t a, uint8_t b) {
	static uint8_t T[16][256];
	static bool init = false;
	if (!init) { for (int m = 0; m < 16; ++m) for (int x = 0; x < 256; ++x) T[m][x] = gmulSlow((uint8_t)x, (uint8_t)m); init = true; }
	return b < 16 ? T[b][a] : gmulSlow(a, b);
}

const AesTables& aesTables() {
	static AesTables t;
	static bool init = false;
	if (!init) {
		for (int x = 0; x < 256; ++x) {
			// multiplicative inverse (0 -> 0)
			uint8_t inv = 0;
			if (x) for (int y = 1; y < 256; ++y) if (gmulSlow((uint8_t)x, (uint8_t)y) == 1) { inv = (uint8_t)y; break; }
			// affine transformation: b'_i = b_i ^ b_(i+4) ^ b_(i+5) ^ b_(i+6) ^ b_(i+7) ^ c_i, c = 0x63
			uint8_t s = 0;
			for (int i = 0; i < 8; ++i) {
				int bit = ((inv >> i) ^ (inv >> ((i + 4) & 7)) ^ (inv >> ((i + 5) & 7)) ^ (inv >> ((i + 6) & 7)) ^ (inv >> ((i + 7) & 7)) ^ (0x63 >> i)) & 1;
				s |= (uint8_t)(bit << i);
			}
			t.sbox[x] = s;
		}
		for (int x = 0; x < 256; ++x) t.inv[t.sbox[x]] = (uint8_t)x;
		init = true;
	}
	return t;
}

// state byte index = row + 4 * column (FIPS-197 3.4), input bytes in order
void aesEncRound(uint8_t s[16], const uint8_t key[16]) {
	const AesTables& T = aesTables();
	uint8_t t[16];
	// ShiftRows: row r rotated left by r columns
	for (int c = 0; c < 4; ++c) for (int r = 0; r < 4; ++r) t[r + 4 * c] = s[r + 4 * ((c + r) & 3)];
	// SubBytes
	for (int i = 0; i < 16; ++i) t[i] = T.sbox[t[i]];
	// MixColumns
	for (int c = 0; c < 4; ++c) {
		uint8_t a0 = t[4 * c], a1 = t[4 * c + 1], a2 = t[4 * c + 2], a3 = t[4 * c + 3];
		s[4 * c + 0] = gmul(a0, 2) ^ gmul(a1, 3) ^ a2 ^ a3;
		s[4 * c + 1] = a0 ^ gmul(a1, 2) ^ gmul(a2, 3) ^ a3;
		s[4 * c + 2] = a0 ^ a1 ^ gmul(a2, 2) ^ gmul(a3, 3);
		s[4 * c + 3] = gmul(a0, 3) ^ a1 ^ a2 ^ gmul(a3, 2);
	}
	for (int i = 0; i < 16; ++i) s[i] ^= key[i];
}

void aesDecRound(uint8_t s[16], const uint8_t key[16]) {
	const AesTables& T = aesTables();
	uint8_t t[16];
	// InvShiftRows: row r rotated right by r columns
	for (int c = 0; c < 4; ++c) for (int r = 0; r < 4; ++r) t[r + 4 * ((c + r) & 3)] = s[r + 4 * c];
	for (int i = 0; i < 16; ++i) t[i] = T.inv[t[i]];
	for (int c = 0; c < 4; ++c) {
		uint8_t a0 = t[4 * c], a1 = t[4 * c + 1], a2 = t[4 * c + 2], a3 = t[4 * c + 3];
		s[4 * c + 0] = gmul(a0, 14) ^ gmul(a1, 11) ^ gmul(a2, 13) ^ gmul(a3, 9);
		s[4 * c + 1] = gmul(a0, 9) ^ gmul(a1, 14) ^ gmul(a2, 11) ^ gmul(a3, 13);
		s[4 * c + 2] = gmul(a0, 13) ^ gmul(a1, 9) ^ gmul(a2, 14) ^ gmul(a3, 11);
		s[4 * c + 3] = gmul(a0, 11) ^ gmul(a1, 13) ^ gmul(a2, 9) ^ gmul(a3, 14);
	}
	for (int i = 0; i < 16; ++i) s[i] ^= key[i];
}

// Constants exactly as printed in doc/specs.md chapter 3 (checked at self-test against their Blake2b derivation)
static const uint8_t K1R[64] = {
	0x53, 0xa5, 0xac, 0x6d, 0x09, 0x66, 0x71, 0x62, 0x2b, 0x55, 0xb5, 0xdb, 0x17, 0x49, 0xf4, 0xb4,
	0x07, 0xaf, 0x7c, 0x6d, 0x0d, 0x71, 0x6a, 0x84, 0x78, 0xd3, 0x25, 0x17, 0x4e, 0xdc, 0xa1, 0x0d,
	0xf1, 0x62, 0x12, 0x3f, 0xc6, 0x7e, 0x94, 0x9f, 0x4f, 0x79, 0xc0, 0xf4, 0x45, 0xe3, 0x20, 0x3e,
	0x35, 0x81, 0xef, 0x6a, 0x7c, 0x31, 0xba, 0xb1, 0x88, 0x4c, 0x31, 0x16, 0x54, 0x91, 0x16, 0x49};
static const uint8_t K4R[128] = {
	0xdd, 0xaa, 0x21, 0x64, 0xdb, 0x3d, 0x83, 0xd1, 0x2b, 0x6d, 0x54, 0x2f, 0x3f, 0xd2, 0xe5, 0x99,
	0x50, 0x34, 0x0e, 0xb2, 0x55, 0x3f, 0x91, 0xb6, 0x53, 0x9d, 0xf7, 0x06, 0xe5, 0xcd, 0xdf, 0xa5,
	0x04, 0xd9, 0x3e, 0x5c, 0xaf, 0x7b, 0x5e, 0x51, 0x9f, 0x67, 0xa4, 0x0a, 0xbf, 0x02, 0x1c, 0x17,
	0x63, 0x37, 0x62, 0x85, 0x08, 0x5d, 0x8f, 0xe7, 0x85, 0x37, 0x67, 0xcd, 0x91, 0xd2, 0xde, 0xd8,
	0x73, 0x6f, 0x82, 0xb5, 0xa6, 0xa7, 0xd6, 0xe3, 0x6d, 0x8b, 0x51, 0x3d, 0xb4, 0xff, 0x9e, 0x22,
	0xf3, 0x6b, 0x56, 0xc7, 0xd9, 0xb3, 0x10, 0x9c, 0x4e, 0x4d, 0x02, 0xe9, 0xd2, 0xb7, 0x72, 0xb2,
	0xe7, 0xc9, 0x73, 0xf2, 0x8b, 0xa3, 0x65, 0xf7, 0x0a, 0x66, 0xa9, 0x2b, 0xa7, 0xef, 0x3b, 0xf6,
	0x09, 0xd6, 0x7c, 0x7a, 0xde, 0x39, 0x58, 0x91, 0xfd, 0xd1, 0x06, 0x0c, 0x2d, 0x76, 0xb0, 0xc0};
static const uint8_t H1R_STATE[64] = {
	0x0d, 0x2c, 0xb5, 0x92, 0xde, 0x56, 0xa8, 0x9f, 0x47, 0xdb, 0x82, 0xcc, 0xad, 0x3a, 0x98, 0xd7,
	0x6e, 0x99, 0x8d, 0x33, 0x98, 0xb7, 0xc7, 0x15, 0x5a, 0x12, 0x9e, 0xf5, 0x57, 0x80, 0xe7, 0xac,
	0x17, 0x00, 0x77, 0x6a, 0xd0, 0xc7, 0x62, 0xae, 0x6b, 0x50, 0x79, 0x50, 0xe4, 0x7c, 0xa0, 0xe8,
	0x0c, 0x24, 0x0a, 0x63, 0x8d, 0x82, 0xad, 0x07, 0x05, 0x00, 0xa1, 0x79, 0x48, 0x49, 0x99, 0x7e};
static const uint8_t H1R_XKEYS[32] = {
	0x89, 0x83, 0xfa, 0xf6, 0x9f, 0x94, 0x24, 0x8b, 0xbf, 0x56, 0xdc, 0x90, 0x01, 0x02, 0x89, 0x06,
	0xd1, 0x63, 0xb2, 0x61, 0x3c, 0xe0, 0xf4, 0x51, 0xc6, 0x43, 0x10, 0xee, 0x9b, 0xf9, 0x18, 0xed};

const uint8_t* gen1RKeys() { return K1R; }
const uint8_t* gen4RKeys() { return K4R; }
const uint8_t* hash1RState() { return H1R_STATE; }
const uint8_t* hash1RXKeys() { return H1R_XKEYS; }

void aesGenerator1R(uint8_t state[64], uint8_t* out, size_t n) {
	for (size_t off = 0; off + 64 <= n; off += 64) {
		aesDecRound(state + 0, K1R + 0);
		aesEncRound(state + 16, K1R + 16);
		aesDecRound(state + 32, K1R + 32);
		aesEncRound(state + 48, K1R + 48);
		memcpy(out + off, state, 64);
	}
}

void aesGenerator4R(uint8_t state[64], uint8_t* out, size_t n) {
	for (size_t off = 0; off + 64 <= n; off += 64) {
		for (int r = 0; r < 4; ++r) {
			aesDecRound(state + 0, K4R + 16 * r);
			aesEncRound(state + 16, K4R + 16 * r);
			aesDecRound(state + 32, K4R + 64 + 16 * r);
			aesEncRound(state + 48, K4R + 64 + 16 * r);
		}
		memcpy(out + off, state, 64);
	}
}

void aesHash1R(const uint8_t* in, size_t n, uint8_t out[64]) {
	uint8_t s[64];
	memcpy(s, H1R_STATE, 64);
	for (size_t off = 0; off + 64 <= n; off += 64) {
		aesEncRound(s + 0, in + off + 0);
		aesDecRound(s + 16, in + off + 16);
		aesEncRound(s + 32, in + off + 32);
		aesDecRound(s + 48, in + off + 48);
	}
	for (int r = 0; r < 2; ++r) {
		aesEncRound(s + 0, H1R_XKEYS + 16 * r);
		aesDecRound(s + 16, H1R_XKEYS + 16 * r);
		aesEncRound(s + 32, H1R_XKEYS + 16 * r);
		aesDecRound(s + 48, H1R_XKEYS + 16 * r);
	}
	memcpy(out, s, 64);
}

} // namespace ref
