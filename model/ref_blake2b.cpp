// RFC 7693 BLAKE2b - independent reference used as an oracle.
#include "ref_blake2b.hpp"
#include <cstring>

namespace ref {

static const uint64_t IV[8] = {
	0x6a09e667f3bcc908ULL, 0xbb67ae8584caa73bULL, 0x3c6ef372fe94f82bULL, 0xa54ff53a5f1d36f1ULL,
	0x510e527fade682d1ULL, 0x9b05688c2b3e6c1fULL, 0x1f83d9abfb41bd6bULL, 0x5be0cd19137e2179ULL};

static const uint8_t SIGMA[10][16] = {
	{0, 1, 2, 3, 4, 5, 6, 7, 8, 9, 10, 11, 12, 13, 14, 15},
	{14, 10, 4, 8, 9, 15, 13, 6, 1, 12, 0, 2, 11, 7, 5, 3},
	{11, 8, 12, 0, 5, 2, 15, 13, 10, 14, 3, 6, 7, 1, 9, 4},
	{7, 9, 3, 1, 13, 12, 11, 14, 2, 6, 5, 10, 4, 0, 15, 8},
	{9, 0, 5, 7, 2, 4, 10, 15, 14, 1, 11, 12, 6, 8, 3, 13},
	{2, 12, 6, 10, 0, 11, 8, 3, 4, 13, 7, 5, 15, 14, 1, 9},
	{12, 5, 1, 15, 14, 13, 4, 10, 0, 7, 6, 3, 9, 2, 8, 11},
	{13, 11, 7, 14, 12, 1, 3, 9, 5, 0, 15, 4, 8, 6, 2, 10},
	{6, 15, 14, 9, 11, 3, 0, 8, 12, 2, 13, 7, 1, 4, 10, 5},
	{10, 2, 8, 4, 7, 6, 1, 5, 15, 11, 9, 14, 3, 12, 13, 0}};

static inline uint64_t rotr(uint64_t x, int n) { return (x >> n) | (x << (64 - n)); }
static inline uint64_t le64(const uint8_t* p) {
	uint64_t v = 0;
	for (int i = 7; i >= 0; --i) v = (v << 8) | p[i];
	return v;
}

static inline void G(uint64_t v[16], int a, int b, int c, int d, uint64_t x, uint64_t y) {
	v[a] = v[a] + v[b] + x; v[d] = rotr(v[d] ^ v[a], 32);
	v[c] = v[c] + v[d];     v[b] = rotr(v[b] ^ v[c], 24);
	v[a] = v[a] + v[b] + y; v[d] = rotr(v[d] ^ v[a], 16);
	v[c] = v[c] + v[d];     v[b] = rotr(v[b] ^ v[c], 63);
}

void blake2b_F(uint64_t h[8], const uint8_t block[128], uint64_t t0, uint64_t t1, bool last) {
	uint64_t v[16], m[16];
	for (int i = 0; i < 8; ++i) { v[i] = h[i]; v[i + 8] = IV[i]; }
	v[12] ^= t0;
	v[13] ^= t1;
	if (last) v[14] = ~v[14];
	for (int i = 0; i < 16; ++i) m[i] = le64(block + 8 * i);
	for (int r = 0; r < 12; ++r) {
		const uint8_t* s = SIGMA[r % 10];
		G(v, 0, 4, 8, 12, m[s[0]], m[s[1]]);
		G(v, 1, 5, 9, 13, m[s[2]], m[s[3]]);
		G(v, 2, 6, 10, 14, m[s[4]], m[s[5]]);
		G(v, 3, 7, 11, 15, m[s[6]], m[s[7]]);
		G(v, 0, 5, 10, 15, m[s[8]], m[s[9]]);
		G(v, 1, 6, 11, 12, m[s[10]], m[s[11]]);
		G(v, 2, 7, 8, 13, m[s[12]], m[s[13]]);
		G(v, 3, 4, 9, 14, m[s[14]], m[s[15]]);
	}
	for (int i = 0; i < 8; ++i) h[i] ^= v[i] ^ v[i + 8];
}

void Blake2b::init(size_t ol, const void* key, size_t keylen) {
	for (int i = 0; i < 8; ++i) h[i] = IV[i];
	h[0] ^= 0x01010000ULL ^ ((uint64_t)keylen << 8) ^ (uint64_t)ol;
	t[0] = t[1] = 0;
	buflen = 0;
	outlen = ol;
	memset(buf, 0, sizeof buf);
	if (keylen > 0) {
		memcpy(buf, key, keylen);
		buflen = 128;   // the key block is a full (zero padded) first block
	}
}

void Blake2b::update(const void* in, size_t inlen) {
	const uint8_t* p = (const uint8_t*)in;
	while (inlen > 0) {
		if (buflen == 128) {
			// buffer is full and more data follows: it is not the last block
			t[0] += 128;
			if (t[0] < 128) t[1]++;
			blake2b_F(h, buf, t[0], t[1], false);
			buflen = 0;
		}
		size_t take = 128 - buflen;
		if (take > inlen) take = inlen;
		memcpy(buf + buflen, p, take);
		buflen += take;
		p += take;
		inlen -= take;
	}
}

void Blake2b::final(void* out) {
	t[0] += buflen;
	if (t[0] < buflen) t[1]++;
	memset(buf + buflen, 0, 128 - buflen);
	blake2b_F(h, buf, t[0], t[1], true);
	uint8_t full[64];
	for (int i = 0; i < 8; ++i)
		for (int j = 0; j < 8; ++j) full[8 * i + j] = (uint8_t)(h[i] >> (8 * j));
	memcpy(out, full, outlen);
}

bool b2b(void* out, size_t outlen, const void* in, size_t inlen, const void* key, size_t keylen) {
	if (outlen == 0 || outlen > 64 || keylen > 64) return false;
	Blake2b s;
	s.init(outlen, key, keylen);
	s.update(in, inlen);
	s.final(out);
	return true;
}

std::vector<uint8_t> hash512(const void* in, size_t n) { std::vector<uint8_t> o(64); b2b(o.data(), 64, in, n); return o; }
std::vector<uint8_t> hash256(const void* in, size_t n) { std::vector<uint8_t> o(32); b2b(o.data(), 32, in, n); return o; }
std::vector<uint8_t> hash512(const std::string& s) { return hash512(s.data(), s.size()); }
std::vector<uint8_t> hash256(const std::string& s) { return hash256(s.data(), s.size()); }

} // namespace ref
