#include "ref_vm.hpp"
#include "ref_aes.hpp"
#include <cmath>
#include <cstring>
#include <xmmintrin.h>

namespace ref {

static const int FREQ[OP_COUNT] = {16, 7, 16, 7, 16, 4, 4, 1, 4, 1, 8, 2, 15, 5, 8, 2, 4, 4, 16, 5, 16, 5, 6, 32, 4, 6, 25, 1, 16, 0};
static const char* NAMES[OP_COUNT] = {"IADD_RS", "IADD_M", "ISUB_R", "ISUB_M", "IMUL_R", "IMUL_M", "IMULH_R", "IMULH_M", "ISMULH_R", "ISMULH_M", "IMUL_RCP", "INEG_R", "IXOR_R", "IXOR_M",
	"IROR_R", "IROL_R", "ISWAP_R", "FSWAP_R", "FADD_R", "FADD_M", "FSUB_R", "FSUB_M", "FSCAL_R", "FMUL_R", "FDIV_M", "FSQRT_R", "CBRANCH", "CFROUND", "ISTORE", "NOP"};
const char* opName(int op) { return NAMES[op]; }
int opOfOpcode(uint8_t opcode) {
	int acc = 0;
	for (int i = 0; i < OP_COUNT; ++i) { acc += FREQ[i]; if (opcode < acc) return i; }
	return NOP;
}

uint64_t reciprocal(uint32_t d) {
	for (int x = 127; x >= 0; --x) {
		unsigned __int128 q = ((unsigned __int128)1 << x) / d;
		if ((q >> 64) == 0) return (uint64_t)q;
	}
	return 0;
}

static uint64_t bitsOf(double d) { uint64_t u; memcpy(&u, &d, 8); return u; }
static double dblOf(uint64_t u) { double d; memcpy(&d, &u, 8); return d; }

uint64_t cvtF(int32_t x) { return bitsOf((double)x); }   // exact

uint64_t cvtE(int32_t x, uint64_t q) {
	uint64_t b = bitsOf((double)x);
	uint64_t frac = b & ((1ULL << 52) - 1);
	uint64_t exp = (b >> 52) & 0x7ff;
	// exponent bits numbered from the most significant one: bits 0-2 = 011, bits 3-6 = exponent mask, remaining 4 bits unchanged
	uint64_t expMask4 = q >> 60;
	exp = (0x3ULL << 8) | (expMask4 << 4) | (exp & 0xf);
	uint64_t fracMask22 = q & ((1ULL << 22) - 1);
	frac = (frac & ~((1ULL << 22) - 1)) | fracMask22;
	return (exp << 52) | frac;   // sign 0
}

uint64_t groupA(uint64_t q) {
	uint64_t frac = q & ((1ULL << 52) - 1);
	uint64_t exp = q >> 59;                 // 0..31
	return ((exp + 1023) << 52) | frac;
}

static uint64_t rd64(const uint8_t* p) { uint64_t v = 0; for (int i = 7; i >= 0; --i) v = (v << 8) | p[i]; return v; }
static void wr64(uint8_t* p, uint64_t v) { for (int i = 0; i < 8; ++i) p[i] = (uint8_t)(v >> (8 * i)); }
static int32_t rd32s(const uint8_t* p) { return (int32_t)((uint32_t)p[0] | ((uint32_t)p[1] << 8) | ((uint32_t)p[2] << 16) | ((uint32_t)p[3] << 24)); }

void Vm::configure(const uint8_t cfg[128]) {
	uint64_t q[16];
	for (int i = 0; i < 16; ++i) q[i] = rd64(cfg + 8 * i);
	for (int i = 0; i < 4; ++i) { a[i][0] = groupA(q[2 * i]); a[i][1] = groupA(q[2 * i + 1]); }
	ma = (uint32_t)q[8];
	mx = (uint32_t)q[10];
	for (int i = 0; i < 4; ++i) readReg[i] = 2 * i + (int)((q[12] >> i) & 1);
	datasetOffset = (q[13] % (kDatasetExtra / 64 + 1)) * 64;
	eMaskQuad[0] = q[14];
	eMaskQuad[1] = q[15];
}

void Vm::loadProgram(const uint8_t* words, int count) {
	prog.resize(count);
	target.assign(count, -2);
	int lastMod[8];
	for (int i = 0; i < 8; ++i) lastMod[i] = -1;   // "all registers are considered to be unmodified"
	for (int i = 0; i < count; ++i) {
		Word w = wordAt(words + 8 * i);
		prog[i] = w;
		int op = opOfOpcode(w.opcode);
		int d = w.dst & 7, s = w.src & 7;
		if (op == CBRANCH) {
			target[i] = lastMod[d];
			for (int k = 0; k < 8; ++k) lastMod[k] = i;
		}
		else if (op == ISWAP_R) { if (d != s) { lastMod[d] = i; lastMod[s] = i; } }
		else if (op == IMUL_RCP) { if (w.imm32 != 0 && (w.imm32 & (w.imm32 - 1)) != 0) lastMod[d] = i; }
		else if (op <= IROL_R) lastMod[d] = i;   // integer instruction with a destination register
	}
}

namespace {
struct Rounding {   // executes FP operations of the model under the VM's fprc, without FTZ/DAZ, all exceptions masked
	uint32_t saved;
	explicit Rounding(int fprc) {
		saved = _mm_getcsr();
		static const uint32_t rc[4] = {0u << 13, 1u << 13, 2u << 13, 3u << 13};   // nearest, down, up, toward zero (Table 4.3.1 == MXCSR.RC order)
		_mm_setcsr(0x1F80u | rc[fprc & 3]);
	}
	~Rounding() { _mm_setcsr(saved); }
};
}

static uint64_t fop(Vm& vm, int kind, uint64_t x, uint64_t y) {
	volatile double a = dblOf(x), b = dblOf(y), r;
	switch (kind) { case 0: r = a + b; break; case 1: r = a - b; break; case 2: r = a * b; break; case 3: r = a / b; break; default: r = std::sqrt(a); break; }
	double rr = r;
	if (std::isnan(rr)) vm.sawNaN = true;
	if (rr != 0.0 && std::fabs(rr) < 2.2250738585072014e-308) vm.sawSubnormal = true;
	return bitsOf(rr);
}

int Vm::step(int pc) {
	const Word& w = prog[pc];
	const int op = opOfOpcode(w.opcode);
	const int d = w.dst & 7, s = w.src & 7, df = w.dst & 3, sf = w.src & 3;
	const uint64_t imm = (uint64_t)(int64_t)(int32_t)w.imm32;
	const int modMem = w.mod & 3, modShift = (w.mod >> 2) & 3, modCond = w.mod >> 4;
	auto memMaskRead = [&](bool allowL3) -> uint32_t { if (allowL3 && d == s) return (kL3 - 1) & ~7u; return modMem == 0 ? ((kL2 - 1) & ~7u) : ((kL1 - 1) & ~7u); };
	auto intMem = [&]() -> uint64_t {   // [mem] for integer instructions: address src + imm32 (src = 0 when src == dst)
		uint64_t base = (d == s) ? 0 : r[s];
		uint32_t addr = (uint32_t)(base + imm) & memMaskRead(true);
		return rd64(spad + addr);
	};
	auto fpMemAddr = [&]() -> uint32_t { return (uint32_t)(r[s] + imm) & memMaskRead(false); };
	int next = pc + 1;
	switch (op) {
	case IADD_RS: r[d] = r[d] + (r[s] << modShift) + (d == 5 ? imm : 0); break;
	case IADD_M: r[d] += intMem(); break;
	case ISUB_R: r[d] -= (d == s) ? imm : r[s]; break;
	case ISUB_M: r[d] -= intMem(); break;
	case IMUL_R: r[d] *= (d == s) ? imm : r[s]; break;
	case IMUL_M: r[d] *= intMem(); break;
	case IMULH_R: r[d] = (uint64_t)(((unsigned __int128)r[d] * r[s]) >> 64); break;
	case IMULH_M: r[d] = (uint64_t)(((unsigned __int128)r[d] * intMem()) >> 64); break;
	case ISMULH_R: r[d] = (uint64_t)(((__int128)(int64_t)r[d] * (int64_t)r[s]) >> 64); break;
	case ISMULH_M: r[d] = (uint64_t)(((__int128)(int64_t)r[d] * (int64_t)intMem()) >> 64); break;
	case IMUL_RCP: if (w.imm32 != 0 && (w.imm32 & (w.imm32 - 1)) != 0) r[d] *= reciprocal(w.imm32); break;
	case INEG_R: r[d] = (uint64_t)0 - r[d]; break;
	case IXOR_R: r[d] ^= (d == s) ? imm : r[s]; break;
	case IXOR_M: r[d] ^= intMem(); break;
	case IROR_R: { unsigned c = (unsigned)(((d == s) ? (uint64_t)w.imm32 : r[s]) & 63); r[d] = c ? ((r[d] >> c) | (r[d] << (64 - c))) : r[d]; break; }
	case IROL_R: { unsigned c = (unsigned)(((d == s) ? (uint64_t)w.imm32 : r[s]) & 63); r[d] = c ? ((r[d] << c) | (r[d] >> (64 - c))) : r[d]; break; }
	case ISWAP_R: if (d != s) { uint64_t t = r[s]; r[s] = r[d]; r[d] = t; } break;
	case FSWAP_R: { uint64_t(*reg)[2] = d < 4 ? &f[d] : &e[d - 4]; uint64_t t = (*reg)[0]; (*reg)[0] = (*reg)[1]; (*reg)[1] = t; break; }
	case FADD_R: { Rounding R(fprc); f[df][0] = fop(*this, 0, f[df][0], a[sf][0]); f[df][1] = fop(*this, 0, f[df][1], a[sf][1]); break; }
	case FADD_M: { uint32_t ad = fpMemAddr(); Rounding R(fprc); f[df][0] = fop(*this, 0, f[df][0], cvtF(rd32s(spad + ad))); f[df][1] = fop(*this, 0, f[df][1], cvtF(rd32s(spad + ad + 4))); break; }
	case FSUB_R: { Rounding R(fprc); f[df][0] = fop(*this, 1, f[df][0], a[sf][0]); f[df][1] = fop(*this, 1, f[df][1], a[sf][1]); break; }
	case FSUB_M: { uint32_t ad = fpMemAddr(); Rounding R(fprc); f[df][0] = fop(*this, 1, f[df][0], cvtF(rd32s(spad + ad))); f[df][1] = fop(*this, 1, f[df][1], cvtF(rd32s(spad + ad + 4))); break; }
	case FSCAL_R: f[df][0] ^= 0x80F0000000000000ULL; f[df][1] ^= 0x80F0000000000000ULL; break;
	case FMUL_R: { Rounding R(fprc); e[df][0] = fop(*this, 2, e[df][0], a[sf][0]); e[df][1] = fop(*this, 2, e[df][1], a[sf][1]); break; }
	case FDIV_M: { uint32_t ad = fpMemAddr(); Rounding R(fprc); e[df][0] = fop(*this, 3, e[df][0], cvtE(rd32s(spad + ad), eMaskQuad[0])); e[df][1] = fop(*this, 3, e[df][1], cvtE(rd32s(spad + ad + 4), eMaskQuad[1])); break; }
	case FSQRT_R: { Rounding R(fprc); e[df][0] = fop(*this, 4, e[df][0], 0); e[df][1] = fop(*this, 4, e[df][1], 0); break; }
	case CBRANCH: {
		int b = modCond + kJumpOffset;
		uint64_t cimm = imm | (1ULL << b);
		if (b > 0) cimm &= ~(1ULL << (b - 1));
		r[d] += cimm;
		uint64_t mask = ((1ULL << kJumpBits) - 1) << b;
		if ((r[d] & mask) == 0) next = target[pc] + 1;
		break;
	}
	case CFROUND: {
		unsigned c = w.imm32 & 63;
		uint64_t v = c ? ((r[s] >> c) | (r[s] << (64 - c))) : r[s];
		if (version == 1 || ((v >> 2) & 15) == 0) fprc = (int)(v & 3);
		break;
	}
	case ISTORE: {
		uint32_t mask = modCond >= 14 ? ((kL3 - 1) & ~7u) : (modMem == 0 ? ((kL2 - 1) & ~7u) : ((kL1 - 1) & ~7u));
		wr64(spad + ((uint32_t)(r[d] + imm) & mask), r[s]);
		break;
	}
	default: break;
	}
	return next;
}

void Vm::iteration(uint32_t& spAddr0, uint32_t& spAddr1, const DatasetFn& ds) {
	const uint32_t mask64 = (kL3 - 1) & ~63u;
	uint64_t mix = r[readReg[0]] ^ r[readReg[1]];
	spAddr0 ^= (uint32_t)mix;
	spAddr1 ^= (uint32_t)(mix >> 32);
	uint32_t a0 = spAddr0 & mask64, a1 = spAddr1 & mask64;
	for (int i = 0; i < 8; ++i) r[i] ^= rd64(spad + a0 + 8 * i);
	for (int i = 0; i < 4; ++i) { f[i][0] = cvtF(rd32s(spad + a1 + 8 * i)); f[i][1] = cvtF(rd32s(spad + a1 + 8 * i + 4)); }
	for (int i = 0; i < 4; ++i) { e[i][0] = cvtE(rd32s(spad + a1 + 32 + 8 * i), eMaskQuad[0]); e[i][1] = cvtE(rd32s(spad + a1 + 32 + 8 * i + 4), eMaskQuad[1]); }
	for (int pc = 0; pc < (int)prog.size();) pc = step(pc);
	uint32_t mt = ma;
	uint32_t& mp = (version == 1) ? mx : ma;
	mp ^= (uint32_t)(r[readReg[2]] ^ r[readReg[3]]);
	// step 6 (prefetch) has no architectural effect
	uint64_t item[8];
	ds(datasetOffset + ((uint64_t)(mt % kDatasetBase) & ~63ULL), item);
	for (int i = 0; i < 8; ++i) r[i] ^= item[i];
	{ uint32_t t = mx; mx = ma; ma = t; }
	for (int i = 0; i < 8; ++i) wr64(spad + a1 + 8 * i, r[i]);
	if (version == 1) { for (int i = 0; i < 4; ++i) { f[i][0] ^= e[i][0]; f[i][1] ^= e[i][1]; } }
	else {
		uint8_t fb[4][16], kb[4][16];
		for (int i = 0; i < 4; ++i) { wr64(fb[i], f[i][0]); wr64(fb[i] + 8, f[i][1]); wr64(kb[i], e[i][0]); wr64(kb[i] + 8, e[i][1]); }
		for (int k = 0; k < 4; ++k) { aesEncRound(fb[0], kb[k]); aesDecRound(fb[1], kb[k]); aesEncRound(fb[2], kb[k]); aesDecRound(fb[3], kb[k]); }
		for (int i = 0; i < 4; ++i) { f[i][0] = rd64(fb[i]); f[i][1] = rd64(fb[i] + 8); }
	}
	for (int i = 0; i < 4; ++i) { wr64(spad + a0 + 16 * i, f[i][0]); wr64(spad + a0 + 16 * i + 8, f[i][1]); }
	spAddr0 = 0;
	spAddr1 = 0;
}

void Vm::run(const DatasetFn& ds) {
	uint32_t spAddr0 = mx, spAddr1 = ma;
	for (int i = 0; i < 8; ++i) r[i] = 0;
	for (int ic = kIterations; ic > 0; --ic) iteration(spAddr0, spAddr1, ds);
}

void Vm::registerFile(uint8_t out[256]) const {
	for (int i = 0; i < 8; ++i) wr64(out + 8 * i, r[i]);
	for (int i = 0; i < 4; ++i) { wr64(out + 64 + 16 * i, f[i][0]); wr64(out + 64 + 16 * i + 8, f[i][1]); }
	for (int i = 0; i < 4; ++i) { wr64(out + 128 + 16 * i, e[i][0]); wr64(out + 128 + 16 * i + 8, e[i][1]); }
	for (int i = 0; i < 4; ++i) { wr64(out + 192 + 16 * i, a[i][0]); wr64(out + 192 + 16 * i + 8, a[i][1]); }
}

} // namespace ref
