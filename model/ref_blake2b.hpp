// Reference Blake2b written from RFC 7693 (section 3). Shares no code with /repo.
#pragma once
#include <cstddef>
#include <cstdint>
#include <string>
#include <vector>

namespace ref {

struct Blake2b {
	uint64_t h[8];
	uint64_t t[2];        // 128-bit byte counter (t[0] low)
	uint8_t buf[128];
	size_t buflen;
	size_t outlen;
	void init(size_t outlen, const void* key = nullptr, size_t keylen = 0);
	void update(const void* in, size_t inlen);
	void final(void* out);
};

// one-shot; returns false for parameters RFC 7693 does not allow (outlen 0 or > 64, keylen > 64)
bool b2b(void* out, size_t outlen, const void* in, size_t inlen, const void* key = nullptr, size_t keylen = 0);
std::vector<uint8_t> hash512(const void* in, size_t n);
std::vector<uint8_t> hash256(const void* in, size_t n);
std::vector<uint8_t> hash512(const std::string& s);
std::vector<uint8_t> hash256(const std::string& s);

// compression function F exposed for counter-state experiments (RFC 7693 3.2)
void blake2b_F(uint64_t h[8], const uint8_t block[128], uint64_t t0, uint64_t t1, bool last);

} // namespace ref
