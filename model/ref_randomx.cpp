#include "ref_randomx.hpp"
#include "ref_aes.hpp"
#include "ref_argon2.hpp"
#include "ref_blake2b.hpp"
#include "ref_vm.hpp"
#include <cstring>

namespace ref {

RxCache buildCache(const void* key, size_t keyLen) {
	RxCache c;
	Argon2Params p;
	p.password.assign((const uint8_t*)key, (const uint8_t*)key + keyLen);
	static const char salt[] = "RandomX\x03";
	p.salt.assign((const uint8_t*)salt, (const uint8_t*)salt + 8);
	p.lanes = 1; p.tagLength = 0; p.memoryKiB = 262144; p.passes = 3; p.version = 0x13; p.type = 0;   // Table 7.1.1
	argon2dFill(p, c.memory);
	BlakeGen g(key, keyLen);
	for (int i = 0; i < 8; ++i) c.programs.push_back(generateSuperscalar(g));
	return c;
}

void randomxHash(const RxCache& cache, const void* input, size_t inputLen, int version, uint8_t out[32], RxTrace* trace) {
	const int progSize = version == 2 ? kProgramSizeV2 : kProgramSizeV1;
	// 2. S = Hash512(H)
	uint8_t S[64]; b2b(S, 64, input, inputLen);
	if (trace) memcpy(trace->seed0.data(), S, 64);
	// 3-4. scratchpad from AesGenerator1R(S)
	std::vector<uint8_t> spad(kL3);
	uint8_t gen1[64]; memcpy(gen1, S, 64);
	aesGenerator1R(gen1, spad.data(), kL3);
	// 5. gen4 = AesGenerator4R(gen1.state)
	uint8_t gen4[64]; memcpy(gen4, gen1, 64);
	Vm vm; vm.version = version; vm.spad = spad.data();
	vm.fprc = 0;   // 6.
	const uint64_t cacheItems = cache.memory.size() / 64;
	DatasetFn ds = [&](uint64_t addr, uint64_t o[8]) { datasetItem(cache.memory.data(), cacheItems, cache.programs, addr / 64, o); };
	std::vector<uint8_t> buf(128 + 8 * (size_t)progSize);
	uint8_t rf[256];
	for (int i = 0; i < 8; ++i) {
		aesGenerator4R(gen4, buf.data(), buf.size());       // 7. (sizes are multiples of 64: 2176 / 3200)
		if (trace) trace->programBuffers.push_back(buf);
		vm.configure(buf.data());
		vm.loadProgram(buf.data() + 128, progSize);
		vm.run(ds);                                          // 8.
		vm.registerFile(rf);
		if (trace) { std::array<uint8_t, 256> a; memcpy(a.data(), rf, 256); trace->registerFiles.push_back(a); }
		if (i < 7) b2b(gen4, 64, rf, 256);                   // 9-10.
	}
	uint8_t A[64]; aesHash1R(spad.data(), kL3, A);           // 12.
	memcpy(rf + 192, A, 64);                                 // 13.
	b2b(out, 32, rf, 256);                                   // 14.
}

} // namespace ref
