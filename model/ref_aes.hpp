// Reference AES round functions (FIPS-197) and the RandomX AES-based generators/hash (specs.md chapter 3).
// The S-box is computed (GF(2^8) inversion + affine map), nothing is copied from /repo.
#pragma once
#include <cstddef>
#include <cstdint>

namespace ref {

struct AesTables { uint8_t sbox[256]; uint8_t inv[256]; };
const AesTables& aesTables();

uint8_t gmul(uint8_t a, uint8_t b);

// One encryption round as defined by specs.md 3.1 / x86 AESENC: ShiftRows, SubBytes, MixColumns, xor key.
void aesEncRound(uint8_t state[16], const uint8_t key[16]);
// One decryption round as defined by specs.md 3.1 / x86 AESDEC: InvShiftRows, InvSubBytes, InvMixColumns, xor key.
void aesDecRound(uint8_t state[16], const uint8_t key[16]);

// specs.md 3.2: produces n bytes (multiple of 64) into out, updates the 64-byte state
void aesGenerator1R(uint8_t state[64], uint8_t* out, size_t n);
// specs.md 3.3
void aesGenerator4R(uint8_t state[64], uint8_t* out, size_t n);
// specs.md 3.4: 64-byte fingerprint of in[0..n) (n multiple of 64)
void aesHash1R(const uint8_t* in, size_t n, uint8_t out[64]);

// keys / constants as printed in the specification (accessors for self-tests)
const uint8_t* gen1RKeys();   // 4 x 16
const uint8_t* gen4RKeys();   // 8 x 16
const uint8_t* hash1RState(); // 64
const uint8_t* hash1RXKeys(); // 2 x 16

} // namespace ref
