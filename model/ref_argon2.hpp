// Reference Argon2d (RFC 9106, version 0x13) memory fill, written from the RFC. Finalisation optional (used only for the RFC test vector).
#pragma once
#include <cstdint>
#include <cstddef>
#include <vector>

namespace ref {

struct Argon2Params {
	std::vector<uint8_t> password, salt, secret, ad;
	uint32_t lanes = 1, tagLength = 0, memoryKiB = 8, passes = 1, version = 0x13, type = 0 /* Argon2d */;
};

// Variable-length hash H' (RFC 9106 3.3)
void argon2Hprime(uint8_t* out, uint32_t outLen, const uint8_t* in, size_t inLen);

// Fills 'memory' (m' blocks of 1024 bytes, m' = 4*p*floor(m/(4p))) and returns m'.
uint32_t argon2dFill(const Argon2Params& p, std::vector<uint8_t>& memory);

// Tag = H'(XOR of the last block of every lane) (RFC 9106 3.2 step 7-8)
std::vector<uint8_t> argon2Finalize(const Argon2Params& p, const std::vector<uint8_t>& memory);

} // namespace ref
