// Reference RandomX virtual machine written from doc/specs.md chapters 4 and 5 (independent of /repo).
// Floating point: host IEEE-754 binary64 under an explicitly set rounding mode, *without* flush-to-zero /
// denormals-are-zero, so that the specification's claim "no NaN, no denormal" stays checkable.
#pragma once
#include <cstdint>
#include <cstddef>
#include <functional>
#include <vector>

namespace ref {

constexpr int      kProgramSizeV1 = 256, kProgramSizeV2 = 384, kIterations = 2048;
constexpr uint32_t kL1 = 16384, kL2 = 262144, kL3 = 2097152;
constexpr uint64_t kDatasetBase = 2147483648ULL, kDatasetExtra = 33554368ULL;
constexpr int      kJumpBits = 8, kJumpOffset = 8;

enum Op { IADD_RS, IADD_M, ISUB_R, ISUB_M, IMUL_R, IMUL_M, IMULH_R, IMULH_M, ISMULH_R, ISMULH_M, IMUL_RCP, INEG_R, IXOR_R, IXOR_M, IROR_R, IROL_R,
	ISWAP_R, FSWAP_R, FADD_R, FADD_M, FSUB_R, FSUB_M, FSCAL_R, FMUL_R, FDIV_M, FSQRT_R, CBRANCH, CFROUND, ISTORE, NOP, OP_COUNT };
const char* opName(int op);
int opOfOpcode(uint8_t opcode);   // Table 5.2.1/5.3.1/5.4.1/5.5.1 frequencies, cumulative in table order

struct Word { uint8_t opcode, dst, src, mod; uint32_t imm32; };
inline Word wordAt(const uint8_t* p) { Word w; w.opcode = p[0]; w.dst = p[1]; w.src = p[2]; w.mod = p[3]; w.imm32 = (uint32_t)p[4] | ((uint32_t)p[5] << 8) | ((uint32_t)p[6] << 16) | ((uint32_t)p[7] << 24); return w; }

uint64_t reciprocal(uint32_t divisor);              // 5.2.6
uint64_t cvtF(int32_t x);                           // 4.3.1: returns the binary64 bit pattern
uint64_t cvtE(int32_t x, uint64_t maskQuadword);    // 4.3.2 with the masks of 4.5.6 (fraction mask bits 0-21, exponent mask bits 60-63 of the quadword)
uint64_t groupA(uint64_t quadword);                 // 4.5.2

using DatasetFn = std::function<void(uint64_t byteAddress, uint64_t out[8])>;

struct Vm {
	// registers (floating point registers as bit patterns: [i][0] low half, [i][1] high half)
	uint64_t r[8];
	uint64_t f[4][2], e[4][2], a[4][2];
	uint32_t ma, mx;
	int fprc;
	// configuration (4.5)
	int readReg[4];
	uint64_t datasetOffset;
	uint64_t eMaskQuad[2];
	int version;            // 1 or 2
	uint8_t* spad;          // kL3 bytes, owned by the caller
	// program
	std::vector<Word> prog;
	std::vector<int> target;   // for CBRANCH: index of the instruction after which execution continues (-1: program start)

	void configure(const uint8_t cfg[128]);                  // 4.5
	void loadProgram(const uint8_t* words, int count);       // 4.4 + branch targets per 5.4.2
	int  step(int pc);                                        // executes instruction pc; returns the next pc
	void iteration(uint32_t& spAddr0, uint32_t& spAddr1, const DatasetFn& ds);   // 4.6.2 steps 1-12
	void run(const DatasetFn& ds);                            // 4.6 (r zeroed, kIterations iterations)
	void registerFile(uint8_t out[256]) const;                // r, f, e, a in little-endian order
	// statistics for invariants (set by step): any NaN / subnormal produced by the *model*
	bool sawNaN = false, sawSubnormal = false;
};

} // namespace ref
