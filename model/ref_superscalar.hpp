// Reference SuperscalarHash: BlakeGenerator (specs.md 3.5), program generator (6.3, with the points the prose leaves
// open pinned to upstream behaviour, see DESIGN.md section 2), executor (6.1) and Dataset item construction (7.3).
#pragma once
#include <cstdint>
#include <cstddef>
#include <vector>

namespace ref {

struct BlakeGen {
	uint8_t s[64];
	size_t idx;
	BlakeGen(const void* key, size_t keyLen, uint32_t nonce = 0);
	uint8_t byte();
	uint32_t u32();
};

enum SsOp { SS_ISUB_R, SS_IXOR_R, SS_IADD_RS, SS_IMUL_R, SS_IROR_C, SS_IADD_C7, SS_IXOR_C7, SS_IADD_C8, SS_IXOR_C8, SS_IADD_C9, SS_IXOR_C9, SS_IMULH_R, SS_ISMULH_R, SS_IMUL_RCP, SS_COUNT, SS_NONE = -1 };

struct SsInstr { int op; int dst; int src; int mod; uint32_t imm32; };

struct SsProgram {
	std::vector<SsInstr> ins;
	int addressReg = 0;
	// rare generator paths taken (labels for C09)
	int srcStalls = 0, dstStalls = 0, throwAways = 0, r5Special = 0, groups4444 = 0, aborts = 0;
	bool stopBySize = false, stopByLatency = false, stopByPorts = false, stopByDecodeCycles = false, chainedMulAllowed = false;
};

SsProgram generateSuperscalar(BlakeGen& gen);
void executeSuperscalar(const SsProgram& p, uint64_t r[8]);

// 7.3: cache = 64-byte items, cacheItems of them; programs = the 8 SuperscalarHash instances
void datasetItem(const uint8_t* cache, uint64_t cacheItems, const std::vector<SsProgram>& programs, uint64_t itemNumber, uint64_t out[8]);

} // namespace ref
