// Reference RandomX hash: literal execution of doc/specs.md chapter 2 on top of the other model parts.
#pragma once
#include "ref_superscalar.hpp"
#include <array>
#include <cstdint>
#include <vector>

namespace ref {

struct RxCache {
	std::vector<uint8_t> memory;            // 256 MiB Argon2d fill (7.1)
	std::vector<SsProgram> programs;        // 8 SuperscalarHash instances (7.2)
};
RxCache buildCache(const void* key, size_t keyLen);

struct RxTrace {
	std::vector<std::vector<uint8_t>> programBuffers;          // 128 + 8*size bytes per program
	std::vector<std::array<uint8_t, 256>> registerFiles;      // after each of the 8 programs
	std::array<uint8_t, 64> seed0;
};

// version: 1 or 2
void randomxHash(const RxCache& cache, const void* input, size_t inputLen, int version, uint8_t out[32], RxTrace* trace = nullptr);

} // namespace ref
