#include "ref_superscalar.hpp"
#include "ref_blake2b.hpp"
#include "ref_vm.hpp"   // reciprocal()
#include <algorithm>
#include <cstring>

namespace ref {

// ---- 3.5 BlakeGenerator ------------------------------------------------------------------------------------
BlakeGen::BlakeGen(const void* key, size_t keyLen, uint32_t nonce) {
	memset(s, 0, 64);
	memcpy(s, key, keyLen > 60 ? 60 : keyLen);   // seed is 0-60 bytes (longer keys: only the first 60 bytes, pinned upstream behaviour)
	s[60] = (uint8_t)nonce; s[61] = (uint8_t)(nonce >> 8); s[62] = (uint8_t)(nonce >> 16); s[63] = (uint8_t)(nonce >> 24);
	idx = 64;   // no unused bytes yet: the first request hashes the state
}
uint8_t BlakeGen::byte() {
	if (idx + 1 > 64) { uint8_t t[64]; b2b(t, 64, s, 64); memcpy(s, t, 64); idx = 0; }
	return s[idx++];
}
uint32_t BlakeGen::u32() {
	if (idx + 4 > 64) { uint8_t t[64]; b2b(t, 64, s, 64); memcpy(s, t, 64); idx = 0; }
	uint32_t v = (uint32_t)s[idx] | ((uint32_t)s[idx + 1] << 8) | ((uint32_t)s[idx + 2] << 16) | ((uint32_t)s[idx + 3] << 24);
	idx += 4;
	return v;
}

// ---- 6.2 reference CPU ------------------------------------------------------------------------------------
enum { P0 = 1, P1 = 2, P5 = 4, P01 = 3, P05 = 5, P015 = 7 };
struct Mop { int size, latency, uop1, uop2; bool dependent; };
// Table 6.2.1
static const Mop sub_rr{3, 1, P015, 0, false}, xor_rr{3, 1, P015, 0, false}, lea_sib{4, 1, P01, 0, false}, imul_rr{4, 3, P1, 0, false}, ror_ri{4, 1, P05, 0, false},
	add_ri{7, 1, P015, 0, false}, xor_ri{7, 1, P015, 0, false}, mov_rr{3, 0, 0, 0, false}, mul_r{3, 4, P1, P5, false}, imul_r{3, 4, P1, P5, false}, mov_ri{10, 1, P015, 0, false},
	imul_rr_dep{4, 3, P1, 0, true};

struct Info { int op; std::vector<Mop> mops; int resultOp, dstOp, srcOp; };
static const Info& info(int op) {
	static const Info T[SS_COUNT] = {
		{SS_ISUB_R, {sub_rr}, 0, 0, 0}, {SS_IXOR_R, {xor_rr}, 0, 0, 0}, {SS_IADD_RS, {lea_sib}, 0, 0, 0}, {SS_IMUL_R, {imul_rr}, 0, 0, 0}, {SS_IROR_C, {ror_ri}, 0, 0, -1},
		{SS_IADD_C7, {add_ri}, 0, 0, -1}, {SS_IXOR_C7, {xor_ri}, 0, 0, -1}, {SS_IADD_C8, {add_ri}, 0, 0, -1}, {SS_IXOR_C8, {xor_ri}, 0, 0, -1}, {SS_IADD_C9, {add_ri}, 0, 0, -1}, {SS_IXOR_C9, {xor_ri}, 0, 0, -1},
		{SS_IMULH_R, {mov_rr, mul_r, mov_rr}, 1, 0, 1}, {SS_ISMULH_R, {mov_rr, imul_r, mov_rr}, 1, 0, 1}, {SS_IMUL_RCP, {mov_ri, imul_rr_dep}, 1, 1, -1}};
	return T[op];
}
static bool isMul(int op) { return op == SS_IMUL_R || op == SS_IMULH_R || op == SS_ISMULH_R || op == SS_IMUL_RCP; }

// Table 6.3.1
static const std::vector<int> GROUPS[6] = {{4, 8, 4}, {7, 3, 3, 3}, {3, 7, 3, 3}, {4, 9, 3}, {4, 4, 4, 4}, {3, 3, 10}};

constexpr int kLatency = 170, kMaxSize = 3 * 170 + 2, kMapSize = kLatency + 4, kLookForward = 4, kMaxThrowAway = 256;

struct Reg { int latency = 0; int lastGroup = SS_NONE; int lastPar = -1; };

struct Cur {   // instruction being issued
	int op = SS_NONE;
	int src = -1, dst = -1, mod = 0; uint32_t imm32 = 0;
	int group = SS_NONE, groupPar = 0;
	bool canReuse = false, parIsSource = false;
	int nMops() const { return op == SS_NONE ? 0 : (int)info(op).mops.size(); }
};

static void create(Cur& c, int op, BlakeGen& g) {
	c.op = op; c.src = c.dst = -1; c.canReuse = c.parIsSource = false;
	switch (op) {
	case SS_ISUB_R: c.mod = 0; c.imm32 = 0; c.group = SS_IADD_RS; c.parIsSource = true; break;   // subtraction and addition are one optimisation group
	case SS_IXOR_R: c.mod = 0; c.imm32 = 0; c.group = SS_IXOR_R; c.parIsSource = true; break;
	case SS_IADD_RS: c.mod = g.byte(); c.imm32 = 0; c.group = SS_IADD_RS; c.parIsSource = true; break;
	case SS_IMUL_R: c.mod = 0; c.imm32 = 0; c.group = SS_IMUL_R; c.parIsSource = true; break;
	case SS_IROR_C: c.mod = 0; do { c.imm32 = g.byte() & 63; } while (c.imm32 == 0); c.group = SS_IROR_C; c.groupPar = -1; break;
	case SS_IADD_C7: case SS_IADD_C8: case SS_IADD_C9: c.mod = 0; c.imm32 = g.u32(); c.group = SS_IADD_C7; c.groupPar = -1; break;
	case SS_IXOR_C7: case SS_IXOR_C8: case SS_IXOR_C9: c.mod = 0; c.imm32 = g.u32(); c.group = SS_IXOR_C7; c.groupPar = -1; break;
	case SS_IMULH_R: c.canReuse = true; c.mod = 0; c.imm32 = 0; c.group = SS_IMULH_R; c.groupPar = (int)g.u32(); break;
	case SS_ISMULH_R: c.canReuse = true; c.mod = 0; c.imm32 = 0; c.group = SS_ISMULH_R; c.groupPar = (int)g.u32(); break;
	case SS_IMUL_RCP: c.mod = 0; do { c.imm32 = g.u32(); } while (c.imm32 == 0 || (c.imm32 & (c.imm32 - 1)) == 0); c.group = SS_IMUL_RCP; c.groupPar = -1; break;
	default: break;
	}
}

// Table 6.3.2
static void createForSlot(Cur& c, BlakeGen& g, int slotSize, int groupIndex, bool isLast) {
	static const int s3[] = {SS_ISUB_R, SS_IXOR_R}, s3L[] = {SS_ISUB_R, SS_IXOR_R, SS_IMULH_R, SS_ISMULH_R}, s4[] = {SS_IROR_C, SS_IADD_RS},
		s7[] = {SS_IXOR_C7, SS_IADD_C7}, s8[] = {SS_IXOR_C8, SS_IADD_C8}, s9[] = {SS_IXOR_C9, SS_IADD_C9};
	switch (slotSize) {
	case 3: if (isLast) create(c, s3L[g.byte() & 3], g); else create(c, s3[g.byte() & 1], g); break;
	case 4: if (groupIndex == 4 && !isLast) create(c, SS_IMUL_R, g); else create(c, s4[g.byte() & 1], g); break;
	case 7: create(c, s7[g.byte() & 1], g); break;
	case 8: create(c, s8[g.byte() & 1], g); break;
	case 9: create(c, s9[g.byte() & 1], g); break;
	default: create(c, SS_IMUL_RCP, g); break;
	}
}

static bool pick(const std::vector<int>& avail, BlakeGen& g, int& reg) {
	if (avail.empty()) return false;
	size_t i = avail.size() > 1 ? g.u32() % avail.size() : 0;
	reg = avail[i];
	return true;
}
static bool selectSource(Cur& c, int cycle, const Reg (&regs)[8], BlakeGen& g, SsProgram& st) {
	std::vector<int> avail;
	for (int i = 0; i < 8; ++i) if (regs[i].latency <= cycle) avail.push_back(i);
	if (avail.size() == 2 && c.op == SS_IADD_RS && (avail[0] == 5 || avail[1] == 5)) { c.groupPar = c.src = 5; st.r5Special++; return true; }
	if (pick(avail, g, c.src)) { if (c.parIsSource) c.groupPar = c.src; return true; }
	return false;
}
static bool selectDestination(Cur& c, int cycle, bool allowChainedMul, const Reg (&regs)[8], BlakeGen& g) {
	std::vector<int> avail;
	for (int i = 0; i < 8; ++i) {
		if (regs[i].latency > cycle) continue;
		if (!c.canReuse && i == c.src) continue;
		if (!allowChainedMul && c.group == SS_IMUL_R && regs[i].lastGroup == SS_IMUL_R) continue;
		if (regs[i].lastGroup == c.group && regs[i].lastPar == c.groupPar) continue;
		if (c.op == SS_IADD_RS && i == 5) continue;
		avail.push_back(i);
	}
	return pick(avail, g, c.dst);
}

// 6.3.3: ports tried in order P5, P0, P1
static int scheduleUop(int uop, int (&busy)[kMapSize][3], int cycle, bool commit) {
	for (; cycle < kMapSize; ++cycle) {
		if ((uop & P5) && !busy[cycle][2]) { if (commit) busy[cycle][2] = uop; return cycle; }
		if ((uop & P0) && !busy[cycle][0]) { if (commit) busy[cycle][0] = uop; return cycle; }
		if ((uop & P1) && !busy[cycle][1]) { if (commit) busy[cycle][1] = uop; return cycle; }
	}
	return -1;
}
static int scheduleMop(const Mop& m, int (&busy)[kMapSize][3], int cycle, int depCycle, bool commit) {
	if (m.dependent) cycle = std::max(cycle, depCycle);
	if (m.uop1 == 0) return cycle;                                        // eliminated move
	if (m.uop2 == 0) return scheduleUop(m.uop1, busy, cycle, commit);
	for (; cycle < kMapSize; ++cycle) {                                   // both micro-ops in the same cycle
		int c1 = scheduleUop(m.uop1, busy, cycle, false), c2 = scheduleUop(m.uop2, busy, cycle, false);
		if (c1 >= 0 && c1 == c2) { if (commit) { scheduleUop(m.uop1, busy, c1, true); scheduleUop(m.uop2, busy, c2, true); } return c1; }
	}
	return -1;
}

SsProgram generateSuperscalar(BlakeGen& g) {
	SsProgram P;
	static int busy[kMapSize][3];
	memset(busy, 0, sizeof busy);
	Reg regs[8];
	int groupIndex = -1;
	Cur cur;
	int mopIndex = 0, cycle = 0, depCycle = 0, mulCount = 0, throwAway = 0;
	bool saturated = false;
	int decodeCycle;
	for (decodeCycle = 0; decodeCycle < kLatency && !saturated && (int)P.ins.size() < kMaxSize; ++decodeCycle) {
		// 6.3.1 decoder group selection
		if (cur.op == SS_IMULH_R || cur.op == SS_ISMULH_R) groupIndex = 5;
		else if (mulCount < decodeCycle + 1) { groupIndex = 4; P.groups4444++; }
		else if (cur.op == SS_IMUL_RCP) groupIndex = (g.byte() & 1) ? 0 : 3;
		else groupIndex = g.byte() & 3;
		const std::vector<int>& slots = GROUPS[groupIndex];
		int bi = 0;
		while (bi < (int)slots.size()) {
			int topCycle = cycle;
			if (mopIndex >= cur.nMops()) {
				if (saturated || (int)P.ins.size() >= kMaxSize) break;
				createForSlot(cur, g, slots[bi], groupIndex, (int)slots.size() == bi + 1);
				mopIndex = 0;
			}
			const Info& inf = info(cur.op);
			const Mop& mop = inf.mops[mopIndex];
			int sc = scheduleMop(mop, busy, cycle, depCycle, false);
			if (sc < 0) { saturated = true; P.stopByPorts = true; break; }
			if (mopIndex == inf.srcOp) {
				int fwd;
				for (fwd = 0; fwd < kLookForward && !selectSource(cur, sc, regs, g, P); ++fwd) { P.srcStalls++; ++sc; ++cycle; }
				if (fwd == kLookForward) {
					if (throwAway < kMaxThrowAway) { throwAway++; P.throwAways++; mopIndex = cur.nMops(); continue; }
					cur = Cur(); P.aborts++; break;
				}
			}
			if (mopIndex == inf.dstOp) {
				int fwd;
				if (throwAway > 0) P.chainedMulAllowed = true;
				for (fwd = 0; fwd < kLookForward && !selectDestination(cur, sc, throwAway > 0, regs, g); ++fwd) { P.dstStalls++; ++sc; ++cycle; }
				if (fwd == kLookForward) {
					if (throwAway < kMaxThrowAway) { throwAway++; P.throwAways++; mopIndex = cur.nMops(); continue; }
					cur = Cur(); P.aborts++; break;
				}
			}
			throwAway = 0;
			sc = scheduleMop(mop, busy, sc, sc, true);
			if (sc < 0) { saturated = true; P.stopByPorts = true; break; }
			depCycle = sc + mop.latency;
			if (mopIndex == inf.resultOp) { Reg& r = regs[cur.dst]; r.latency = depCycle; r.lastGroup = cur.group; r.lastPar = cur.groupPar; }
			bi++; mopIndex++;
			if (sc >= kLatency) { saturated = true; P.stopByLatency = true; }
			cycle = topCycle;
			if (mopIndex >= cur.nMops()) {
				P.ins.push_back(SsInstr{cur.op, cur.dst, cur.src >= 0 ? cur.src : cur.dst, cur.mod, cur.imm32});
				mulCount += isMul(cur.op) ? 1 : 0;
			}
		}
		++cycle;
	}
	if ((int)P.ins.size() >= kMaxSize) P.stopBySize = true;
	if (decodeCycle >= kLatency && !saturated) P.stopByDecodeCycles = true;
	// address register: longest dependency chain assuming 1 cycle per instruction and unlimited parallelism
	int lat[8] = {0};
	for (auto& i : P.ins) {
		int ld = lat[i.dst] + 1, ls = i.dst != i.src ? lat[i.src] + 1 : 0;
		lat[i.dst] = std::max(ld, ls);
	}
	int best = 0; P.addressReg = 0;
	for (int i = 0; i < 8; ++i) if (lat[i] > best) { best = lat[i]; P.addressReg = i; }
	return P;
}

// ---- 6.1 executor -------------------------------------------------------------------------------------------
void executeSuperscalar(const SsProgram& p, uint64_t r[8]) {
	for (auto& i : p.ins) {
		uint64_t& d = r[i.dst]; uint64_t s = r[i.src];
		uint64_t imm = (uint64_t)(int64_t)(int32_t)i.imm32;
		switch (i.op) {
		case SS_ISUB_R: d -= s; break;
		case SS_IXOR_R: d ^= s; break;
		case SS_IADD_RS: d += s << ((i.mod >> 2) & 3); break;
		case SS_IMUL_R: d *= s; break;
		case SS_IROR_C: { unsigned c = i.imm32 & 63; d = c ? ((d >> c) | (d << (64 - c))) : d; break; }
		case SS_IADD_C7: case SS_IADD_C8: case SS_IADD_C9: d += imm; break;
		case SS_IXOR_C7: case SS_IXOR_C8: case SS_IXOR_C9: d ^= imm; break;
		case SS_IMULH_R: d = (uint64_t)(((unsigned __int128)d * s) >> 64); break;
		case SS_ISMULH_R: d = (uint64_t)(((__int128)(int64_t)d * (int64_t)s) >> 64); break;
		case SS_IMUL_RCP: d *= reciprocal(i.imm32); break;
		default: break;
		}
	}
}

// ---- 7.3 -----------------------------------------------------------------------------------------------------
void datasetItem(const uint8_t* cache, uint64_t cacheItems, const std::vector<SsProgram>& programs, uint64_t itemNumber, uint64_t r[8]) {
	r[0] = (itemNumber + 1) * 6364136223846793005ULL;
	r[1] = r[0] ^ 9298411001130361340ULL;
	r[2] = r[0] ^ 12065312585734608966ULL;
	r[3] = r[0] ^ 9306329213124626780ULL;
	r[4] = r[0] ^ 5281919268842080866ULL;
	r[5] = r[0] ^ 10536153434571861004ULL;
	r[6] = r[0] ^ 3398623926847679864ULL;
	r[7] = r[0] ^ 9549104520008361294ULL;
	uint64_t cacheIndex = itemNumber;
	for (size_t i = 0; i < programs.size(); ++i) {
		const uint8_t* line = cache + (cacheIndex % cacheItems) * 64;
		executeSuperscalar(programs[i], r);
		for (int q = 0; q < 8; ++q) { uint64_t v = 0; for (int b = 7; b >= 0; --b) v = (v << 8) | line[8 * q + b]; r[q] ^= v; }
		cacheIndex = r[programs[i].addressReg];
	}
}

} // namespace ref
