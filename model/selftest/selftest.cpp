// Self-test of the reference model against anchors that are independent of /repo:
// RFC 7693 appendix vector, CPython hashlib (driver side), FIPS-197 Appendix B, the CPU's AES-NI
// instructions, the constants printed in doc/specs.md re-derived through Blake2b.
#include "ref_blake2b.hpp"
#include "ref_aes.hpp"
#include <cstdio>
#include <cstring>
#include <string>
#include <vector>
#include <wmmintrin.h>

static std::string hex(const uint8_t* p, size_t n) { static const char* d = "0123456789abcdef"; std::string s; for (size_t i = 0; i < n; ++i) { s += d[p[i] >> 4]; s += d[p[i] & 15]; } return s; }
static std::vector<uint8_t> unhex(const char* s) { std::vector<uint8_t> v; for (size_t i = 0; s[i] && s[i + 1]; i += 2) { unsigned x; sscanf(s + i, "%2x", &x); v.push_back((uint8_t)x); } return v; }
static int fails = 0;
#define CHECK(c, msg) do { if (!(c)) { printf("SELFTEST-FAIL %s\n", msg); ++fails; } } while (0)

extern int selftest_more();   // further model parts (argon2, superscalar, vm) register their anchors here

int main(int argc, char** argv) {
	if (argc > 1 && std::string(argv[1]) == "blake-cases") {
		// deterministic (msg,key,outlen) cases for comparison with hashlib in the driver
		uint64_t s = 88172645463325252ULL;
		auto rnd = [&]() { s ^= s << 13; s ^= s >> 7; s ^= s << 17; return s; };
		for (int i = 0; i < 2000; ++i) {
			size_t mlen = (i < 400) ? (size_t)i : (size_t)(rnd() % 1500);
			size_t klen = (i % 3 == 0) ? 0 : (size_t)(rnd() % 65);
			size_t olen = 1 + (size_t)(rnd() % 64);
			std::vector<uint8_t> m(mlen), k(klen), o(olen);
			for (auto& b : m) b = (uint8_t)rnd();
			for (auto& b : k) b = (uint8_t)rnd();
			ref::b2b(o.data(), olen, m.data(), mlen, k.data(), klen);
			printf("%s %s %zu %s\n", mlen ? hex(m.data(), mlen).c_str() : "-", klen ? hex(k.data(), klen).c_str() : "-", olen, hex(o.data(), olen).c_str());
		}
		return 0;
	}
	// RFC 7693 Appendix A: BLAKE2b-512("abc")
	{
		auto d = ref::hash512(std::string("abc"));
		CHECK(hex(d.data(), 64) == "ba80a53f981c4d0d6a2797b69f12f6e94c212f14685ac4b74b12bb6fdbffa2d17d87c5392aab792dc252d5de4533cc9518d38aa8dbf1925ab92386edd4009923", "blake2b abc");
		// streaming in odd chunks equals one-shot
		std::vector<uint8_t> m(1000); for (size_t i = 0; i < m.size(); ++i) m[i] = (uint8_t)(i * 7 + 1);
		auto one = ref::hash512(m.data(), m.size());
		ref::Blake2b st; st.init(64); size_t off = 0, step = 1; while (off < m.size()) { size_t t = std::min(step, m.size() - off); st.update(m.data() + off, t); off += t; step = step * 3 % 257 + 1; }
		uint8_t o2[64]; st.final(o2);
		CHECK(memcmp(one.data(), o2, 64) == 0, "blake2b streaming");
	}
	// specs.md constants re-derived
	{
		auto k1 = ref::hash512(std::string("RandomX AesGenerator1R keys"));
		CHECK(memcmp(k1.data(), ref::gen1RKeys(), 64) == 0, "AesGenerator1R keys");
		auto k4a = ref::hash512(std::string("RandomX AesGenerator4R keys 0-3"));
		auto k4b = ref::hash512(std::string("RandomX AesGenerator4R keys 4-7"));
		CHECK(memcmp(k4a.data(), ref::gen4RKeys(), 64) == 0 && memcmp(k4b.data(), ref::gen4RKeys() + 64, 64) == 0, "AesGenerator4R keys");
		auto hs = ref::hash512(std::string("RandomX AesHash1R state"));
		CHECK(memcmp(hs.data(), ref::hash1RState(), 64) == 0, "AesHash1R state");
		auto xk = ref::hash256(std::string("RandomX AesHash1R xkeys"));
		CHECK(memcmp(xk.data(), ref::hash1RXKeys(), 32) == 0, "AesHash1R xkeys");
	}
	// FIPS-197: S-box corners and Appendix B round 1
	{
		const auto& T = ref::aesTables();
		CHECK(T.sbox[0x00] == 0x63 && T.sbox[0x01] == 0x7c && T.sbox[0x53] == 0xed && T.sbox[0xff] == 0x16 && T.inv[0x63] == 0x00, "sbox corners");
		auto st = unhex("193de3bea0f4e22b9ac68d2ae9f84808");
		auto rk = unhex("a0fafe1788542cb123a339392a6c7605");
		ref::aesEncRound(st.data(), rk.data());
		CHECK(hex(st.data(), 16) == "a49c7ff2689f352b6b5bea43026a5049", "FIPS-197 App.B round 1");
	}
	// the CPU's AESENC/AESDEC as an independent implementation of the same standard
	{
		uint64_t s = 0x9E3779B97F4A7C15ULL;
		auto rnd = [&]() { s ^= s << 13; s ^= s >> 7; s ^= s << 17; return s; };
		for (int i = 0; i < 20000; ++i) {
			uint8_t a[16], k[16], e[16], d[16];
			for (int j = 0; j < 16; ++j) { a[j] = (uint8_t)rnd(); k[j] = (uint8_t)rnd(); }
			if (i < 256) { memset(a, i, 16); memset(k, 0, 16); }
			__m128i va = _mm_loadu_si128((const __m128i*)a), vk = _mm_loadu_si128((const __m128i*)k);
			_mm_storeu_si128((__m128i*)e, _mm_aesenc_si128(va, vk));
			_mm_storeu_si128((__m128i*)d, _mm_aesdec_si128(va, vk));
			uint8_t r1[16], r2[16];
			memcpy(r1, a, 16); memcpy(r2, a, 16);
			ref::aesEncRound(r1, k);
			ref::aesDecRound(r2, k);
			if (memcmp(r1, e, 16) != 0) { CHECK(false, "ref enc round vs AES-NI"); break; }
			if (memcmp(r2, d, 16) != 0) { CHECK(false, "ref dec round vs AES-NI"); break; }
		}
	}
	fails += selftest_more();
	if (fails) { printf("SELFTEST-FAILED %d\n", fails); return 1; }
	printf("SELFTEST-OK\n");
	return 0;
}
