#include "ref_argon2.hpp"
#include "ref_randomx.hpp"
#include <thread>
#include <cstdio>
#include <cstring>
#include <string>
static std::string hx(const uint8_t* p, size_t n) { static const char* d = "0123456789abcdef"; std::string s; for (size_t i = 0; i < n; ++i) { s += d[p[i] >> 4]; s += d[p[i] & 15]; } return s; }
int selftest_more() {
	int fails = 0;
	// RFC 9106 section 5.1: Argon2d test vector (m=32 KiB, t=3, p=4, tag 32 bytes, password 32x01, salt 16x02, secret 8x03, ad 12x04)
	ref::Argon2Params p; p.password.assign(32, 1); p.salt.assign(16, 2); p.secret.assign(8, 3); p.ad.assign(12, 4);
	p.lanes = 4; p.tagLength = 32; p.memoryKiB = 32; p.passes = 3;
	std::vector<uint8_t> mem; ref::argon2dFill(p, mem);
	auto tag = ref::argon2Finalize(p, mem);
	std::string t = hx(tag.data(), tag.size());
	if (t != "512b391b6f1162975371d30919734294f868e3be3984f3c1a13a4db9fabe4acb") { printf("SELFTEST-FAIL argon2d RFC 9106 vector: got %s\n", t.c_str()); ++fails; }
	// the 10 published digests of RandomX (5 inputs x v1/v2), see tests.cpp "Hash test 1a-1e"
	struct V { const char* key; std::string input; const char* v1; const char* v2; };
	auto unhex = [](const char* h) { std::string o; for (size_t i = 0; h[i] && h[i + 1]; i += 2) { unsigned x; sscanf(h + i, "%2x", &x); o.push_back((char)x); } return o; };
	std::vector<V> vs = {
		{"test key 000", "This is a test", "639183aae1bf4c9a35884cb46b09cad9175f04efd7684e7262a0ac1c2f0b4e3f", "22ec6b861b3eb23686b2efbad69513c967ecfce80983df66c9c5b4fbfb4cdb6f"},
		{"test key 000", "Lorem ipsum dolor sit amet", "300a0adb47603dedb42228ccb2b211104f4da45af709cd7547cd049e9489c969", "9e2c772c12fd48f93c14c97fdc89d556264d9100597023f44d9163e279012ecf"},
		{"test key 000", "sed do eiusmod tempor incididunt ut labore et dolore magna aliqua", "c36d4ed4191e617309867ed66a443be4075014e2b061bcdaf9ce7b721d2b77a8", "4d6b063a1a603751d525f18a171336a4002f2f06df6c17e4b25fe17e17796e42"},
		{"test key 001", "sed do eiusmod tempor incididunt ut labore et dolore magna aliqua", "e9ff4503201c0c2cca26d285c93ae883f9b1d30c9eb240b820756f2d5a7905fc", "97024134686ce27d362ea8d86d8ef16483ac272abdabd46ef13359400777fe5e"},
		{"test key 001", unhex("0b0b98bea7e805e0010a2126d287a2a0cc833d312cb786385a7c2f9de69d25537f584a9bc9977b00000000666fd8753bf61a8631f12984e3fd44f4014eca629276817b56f32e9b68bd82f416"), "c56414121acda1713c2f2a819d8ae38aed7c80c35c2a769298d34f03833cd5f1", "c8e92c5f7c1946fecf06bc382b92e3111da38ee3e6a5ad90704e1a9d8aaf6e76"}};
	ref::RxCache c0 = ref::buildCache("test key 000", 12), c1 = ref::buildCache("test key 001", 12);
	std::vector<std::thread> th; std::vector<int> bad(vs.size() * 2, 0);
	for (size_t i = 0; i < vs.size(); ++i) for (int v = 1; v <= 2; ++v) th.emplace_back([&, i, v] {
		uint8_t out[32]; ref::randomxHash(std::string(vs[i].key) == "test key 000" ? c0 : c1, vs[i].input.data(), vs[i].input.size(), v, out);
		if (hx(out, 32) != (v == 1 ? vs[i].v1 : vs[i].v2)) bad[2 * i + v - 1] = 1;
	});
	for (auto& t : th) t.join();
	for (size_t i = 0; i < bad.size(); ++i) if (bad[i]) { printf("SELFTEST-FAIL published RandomX digest %zu v%zu\n", i / 2, i % 2 + 1); ++fails; }
	return fails;
}
