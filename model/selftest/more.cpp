int selftest_more() { return 0; }
