// ProgramGen (DESIGN.md 3.2): RandomX program buffers (128-byte configuration block + 384 instruction words)
// biased towards the encodings the code treats specially. A case is described by rapidcheck-generated
// parameters (shape, seeds, flags, explicit instruction overrides) and expanded deterministically, so the
// case serialises as the final 3200 bytes and is minimised instruction-by-instruction on failure.
#pragma once
#include "harness/vh.hpp"
#include "bytecode_machine.hpp"   // only for the ceil_* opcode range constants used to *bias* generation
#include "common.hpp"
#include <ctime>

namespace pg {

constexpr size_t ProgramBytes = 128 + 8 * RANDOMX_PROGRAM_MAX_SIZE;

struct TypeRange { const char* name; int lo, hi; };
inline const std::vector<TypeRange>& types() {
	using namespace randomx;
	static const std::vector<TypeRange> t = {
		{"IADD_RS", 0, ceil_IADD_RS}, {"IADD_M", ceil_IADD_RS, ceil_IADD_M}, {"ISUB_R", ceil_IADD_M, ceil_ISUB_R}, {"ISUB_M", ceil_ISUB_R, ceil_ISUB_M},
		{"IMUL_R", ceil_ISUB_M, ceil_IMUL_R}, {"IMUL_M", ceil_IMUL_R, ceil_IMUL_M}, {"IMULH_R", ceil_IMUL_M, ceil_IMULH_R}, {"IMULH_M", ceil_IMULH_R, ceil_IMULH_M},
		{"ISMULH_R", ceil_IMULH_M, ceil_ISMULH_R}, {"ISMULH_M", ceil_ISMULH_R, ceil_ISMULH_M}, {"IMUL_RCP", ceil_ISMULH_M, ceil_IMUL_RCP}, {"INEG_R", ceil_IMUL_RCP, ceil_INEG_R},
		{"IXOR_R", ceil_INEG_R, ceil_IXOR_R}, {"IXOR_M", ceil_IXOR_R, ceil_IXOR_M}, {"IROR_R", ceil_IXOR_M, ceil_IROR_R}, {"IROL_R", ceil_IROR_R, ceil_IROL_R},
		{"ISWAP_R", ceil_IROL_R, ceil_ISWAP_R}, {"FSWAP_R", ceil_ISWAP_R, ceil_FSWAP_R}, {"FADD_R", ceil_FSWAP_R, ceil_FADD_R}, {"FADD_M", ceil_FADD_R, ceil_FADD_M},
		{"FSUB_R", ceil_FADD_M, ceil_FSUB_R}, {"FSUB_M", ceil_FSUB_R, ceil_FSUB_M}, {"FSCAL_R", ceil_FSUB_M, ceil_FSCAL_R}, {"FMUL_R", ceil_FSCAL_R, ceil_FMUL_R},
		{"FDIV_M", ceil_FMUL_R, ceil_FDIV_M}, {"FSQRT_R", ceil_FDIV_M, ceil_FSQRT_R}, {"CBRANCH", ceil_FSQRT_R, ceil_CBRANCH}, {"CFROUND", ceil_CBRANCH, ceil_CFROUND},
		{"ISTORE", ceil_CFROUND, ceil_ISTORE}, {"NOP", ceil_ISTORE, ceil_NOP}};
	return t;
}
enum T { IADD_RS, IADD_M, ISUB_R, ISUB_M, IMUL_R, IMUL_M, IMULH_R, IMULH_M, ISMULH_R, ISMULH_M, IMUL_RCP, INEG_R, IXOR_R, IXOR_M, IROR_R, IROL_R,
	ISWAP_R, FSWAP_R, FADD_R, FADD_M, FSUB_R, FSUB_M, FSCAL_R, FMUL_R, FDIV_M, FSQRT_R, CBRANCH, CFROUND, ISTORE, NOP, NTYPES };
inline int typeOf(uint8_t opcode) { auto& t = types(); for (int i = 0; i < (int)t.size(); ++i) if (opcode >= t[i].lo && opcode < t[i].hi) return i; return NOP; }
inline bool isMemInt(int t) { return t == IADD_M || t == ISUB_M || t == IMUL_M || t == IMULH_M || t == ISMULH_M || t == IXOR_M; }

struct Instr { uint8_t opcode, dst, src, mod; uint32_t imm; };
inline void put(uint8_t* p, const Instr& i) { p[0] = i.opcode; p[1] = i.dst; p[2] = i.src; p[3] = i.mod; memcpy(p + 4, &i.imm, 4); }
inline Instr get(const uint8_t* p) { Instr i; i.opcode = p[0]; i.dst = p[1]; i.src = p[2]; i.mod = p[3]; memcpy(&i.imm, p + 4, 4); return i; }
inline Instr nopEquivalent() { return Instr{(uint8_t)types()[ISWAP_R].lo, 0, 0, 0, 0}; }   // ISWAP_R r0,r0: decoded as a no-op by every engine

struct R {   // deterministic expander
	vh::XorShift x;
	explicit R(uint64_t s) : x(s) {}
	uint64_t u() { return x.next(); }
	uint32_t below(uint32_t n) { return (uint32_t)(u() % n); }
	bool chance(int pct) { return below(100) < (uint32_t)pct; }
	uint32_t imm32() {
		switch (below(10)) {
		case 0: case 1: case 2: return (uint32_t)u();
		case 3: case 4: { int k = below(32); return (1u << k) + (uint32_t)((int)below(3) - 1); }
		case 5: { static const uint32_t b[] = {0, 1, 2, 3, 7, 8, 13, 63, 64, 0x7fffffffu, 0x80000000u, 0x80000001u, 0xffffffffu, 0xfffffff8u, 0xffffffc0u}; return b[below(15)]; }
		case 6: { static const uint32_t m[] = {16376, 16384, 262136, 262144, 2097144, 2097152, 2097088}; return m[below(7)] + (uint32_t)(((int)below(5) - 2) * 8); }
		case 7: return (uint32_t)(-(int32_t)below(4096));
		case 8: return below(4096);
		default: return (uint32_t)u() & 0xffff0000u;
		}
	}
	uint64_t u64b() {
		switch (below(6)) {
		case 0: case 1: return u();
		case 2: { int k = below(64); return ((uint64_t)1 << k) + (uint64_t)((int64_t)below(3) - 1); }
		case 3: { static const uint64_t b[] = {0, 1, 0x7fffffffffffffffULL, 0x8000000000000000ULL, ~0ULL, 0xffffffffULL, 0x100000000ULL, 0x80000000ULL}; return b[below(8)]; }
		case 4: return (uint64_t)(int64_t)(int32_t)imm32();
		default: return u() >> below(64);
		}
	}
	uint8_t opcode(int forcedType = -1) {
		auto& t = types();
		if (forcedType < 0 && chance(50)) return (uint8_t)u();            // natural frequencies
		int ty = forcedType >= 0 ? forcedType : (int)below(NTYPES);
		if (t[ty].hi == t[ty].lo) return (uint8_t)u();                        // NOP has frequency 0
		switch (below(4)) { case 0: return (uint8_t)t[ty].lo; case 1: return (uint8_t)(t[ty].hi - 1); default: return (uint8_t)(t[ty].lo + below(t[ty].hi - t[ty].lo)); }
	}
	Instr instr(int forcedType = -1) {
		Instr i;
		i.opcode = opcode(forcedType);
		int ty = typeOf(i.opcode);
		i.dst = (uint8_t)u(); i.src = (uint8_t)u();
		int rk = below(4);
		if (rk == 1) i.src = (uint8_t)((i.src & 0xf8) | (i.dst & 7));                           // src == dst (mod 8)
		else if (rk == 2) { uint8_t r = chance(50) ? 4 : 5; if (chance(50)) i.dst = (uint8_t)((i.dst & 0xf8) | r); else i.src = (uint8_t)((i.src & 0xf8) | r); }
		i.mod = (uint8_t)u();
		if (chance(40)) { static const uint8_t c[] = {0, 13, 14, 15}; i.mod = (uint8_t)((i.mod & 0x0f) | (c[below(4)] << 4)); }
		i.imm = imm32();
		if (ty == IMUL_RCP && chance(60)) { switch (below(5)) { case 0: i.imm = 0; break; case 1: i.imm = 1u << below(32); break; case 2: i.imm = (1u << below(31)) + 1; break; case 3: i.imm = 3; break; default: i.imm = 0xffffffffu; } }
		if (ty == CFROUND && chance(70)) { static const uint32_t r[] = {0, 13, 14, 63, 12, 1}; i.imm = (i.imm & ~63u) | r[below(6)]; }
		return i;
	}
};

enum Shape { NATURAL, SATURATED, BRANCHY, STORE_L3, SPARSE, FP_HEAVY, RCP_NOOP, MAXLEN, LONG_BRANCH, NSHAPES };
inline const char* shapeName(int s) { static const char* n[] = {"natural", "saturated", "branchy", "store-L3", "sparse", "fp-heavy", "rcp-noop", "max-code-size", "long-branch"}; return n[s]; }

struct Override { int pos; Instr ins; };

// Fills 3200 bytes. satType only used by SATURATED.
inline void expand(uint8_t* out, int shape, uint64_t seed, int satType, const std::vector<Override>& ov) {
	R r(seed);
	// configuration block (spec 4.5): 16 quadwords
	for (int q = 0; q < 16; ++q) {
		uint64_t v = r.u64b();
		if (q == 8 || q == 10) { switch (r.below(4)) { case 0: v = 0; break; case 1: v = 0xffffffc0u; break; case 2: v = ~0ULL; break; default: break; } }
		if (q == 13) {   // dataset offset = v % (DatasetExtraItems + 1) items: extremes, and the encodable-immediate boundaries (offset/64 and offset in bytes around 2^7, 2^8, 2^15, 2^16, 2^31)
			switch (r.below(9)) { case 0: v = 0; break; case 1: v = randomx::DatasetExtraItems; break; case 2: v = randomx::DatasetExtraItems + 1; break; case 3: v = ~0ULL; break; case 4: v = randomx::DatasetExtraItems - 1; break;
			case 5: { static const uint32_t b[] = {1, 2, 63, 64, 127, 128, 129, 255, 256, 257, 511, 512, 32767, 32768, 32769, 65535, 65536, 262143, 262144, 524286}; v = (v & ~0x7ffffULL) | b[r.below(20)]; break; }
			case 6: v = (v & ~0x7ffffULL) | r.below(1024); break;
			default: break; }
		}
		if ((q == 14 || q == 15) && r.chance(30)) v = r.chance(50) ? ~0ULL : 0;
		memcpy(out + 8 * q, &v, 8);
	}
	uint8_t* p = out + 128;
	const int N = RANDOMX_PROGRAM_MAX_SIZE;
	switch (shape) {
	case SATURATED: {
		Instr proto = r.instr(satType);
		bool same = r.chance(50);
		for (int i = 0; i < N; ++i) { Instr x = same ? proto : r.instr(satType); if (same && r.chance(30)) x.imm = r.imm32(); put(p + 8 * i, x); }
		break;
	}
	case BRANCHY: for (int i = 0; i < N; ++i) put(p + 8 * i, r.chance(40) ? r.instr(CBRANCH) : (r.chance(50) ? r.instr(r.below(ISWAP_R + 1)) : r.instr())); break;
	case STORE_L3: for (int i = 0; i < N; ++i) { Instr x = r.chance(50) ? r.instr(ISTORE) : r.instr(); if (typeOf(x.opcode) == ISTORE && r.chance(70)) x.mod |= 0xe0; put(p + 8 * i, x); } break;
	case SPARSE: { for (int i = 0; i < N; ++i) put(p + 8 * i, nopEquivalent()); int k = 1 + r.below(24); for (int j = 0; j < k; ++j) put(p + 8 * r.below(N), r.instr()); break; }
	case FP_HEAVY: for (int i = 0; i < N; ++i) { static const int f[] = {FSWAP_R, FADD_R, FADD_M, FSUB_R, FSUB_M, FSCAL_R, FMUL_R, FDIV_M, FSQRT_R, CFROUND}; put(p + 8 * i, r.chance(80) ? r.instr(f[r.below(10)]) : r.instr()); } break;
	case MAXLEN: {
		// worst-case code size: (almost) every slot the longest x86 encoding - FDIV_M with src = r4 (r12 needs a SIB byte: 32 bytes); the few
		// other slots 31-byte encodings (FDIV_M with another register, CFROUND under v2). Exercises the code-buffer budget of every back-end.
		int others = r.below(8);   // 0..7 slots that are not the 32-byte form
		for (int i = 0; i < N; ++i) { Instr x = r.instr(FDIV_M); x.src = (uint8_t)((x.src & 0xf8) | 4); put(p + 8 * i, x); }
		for (int j = 0; j < others; ++j) { Instr x = r.chance(50) ? r.instr(CFROUND) : r.instr(FDIV_M); if (typeOf(x.opcode) == FDIV_M && (x.src & 7) == 4) x.src ^= 1; put(p + 8 * r.below(N), x); }
		break;
	}
	case LONG_BRANCH: {
		// loops with long bodies: writer of d, then a generated number of instructions that modify no integer register (FP ops, stores,
		// CFROUND) and are no branches, then CBRANCH d - so that branch distances of every size occur (back-ends pick different branch
		// encodings by distance: rel32 / c.beqz, beq, c.bnez+jal / b.cond) and taken branches re-execute long stretches
		int i = 0;
		while (i < N) {
			uint8_t d = (uint8_t)r.below(8);
			static const int w[] = {IADD_RS, ISUB_R, IMUL_R, IXOR_R, IROR_R, INEG_R};
			if (r.chance(80)) { Instr a = r.instr(w[r.below(6)]); a.dst = d; if ((a.src & 7) == d) a.src = (uint8_t)((d + 3) & 7); put(p + 8 * i++, a); }   // else: target is the previous branch / program start
			static const int lens[] = {0, 1, 3, 6, 12, 20, 36, 37, 40, 50, 72, 73, 80, 120, 200};
			int L = r.chance(70) ? lens[r.below(15)] : (int)r.below(260);
			int heavy = r.below(3);   // 0: mixed sizes, 1: FDIV_M (largest encodings), 2: small encodings
			for (int k = 0; k < L && i < N; ++k) {
				static const int body[] = {FSWAP_R, FADD_R, FADD_M, FSUB_R, FSUB_M, FSCAL_R, FMUL_R, FDIV_M, FSQRT_R, ISTORE, CFROUND};
				int t = heavy == 1 ? FDIV_M : heavy == 2 ? (r.chance(50) ? FMUL_R : FSWAP_R) : body[r.below(11)];
				put(p + 8 * i++, r.instr(t));
			}
			if (i < N) { Instr c = r.instr(CBRANCH); c.dst = d; put(p + 8 * i++, c); }
		}
		break;
	}
	case RCP_NOOP: {
		// natural program with blocks: writer of d; modifier of another register; IMUL_RCP d with no-op divisor; CBRANCH d (C18 no-op rule)
		for (int i = 0; i < N; ++i) put(p + 8 * i, r.instr());
		for (int b = 0; b + 4 <= N; b += 4 + r.below(6)) {
			uint8_t d = (uint8_t)r.below(8), e = (uint8_t)((d + 1 + r.below(7)) & 7);
			static const int w[] = {IADD_RS, ISUB_R, IMUL_R, IXOR_R, IROR_R, INEG_R, IADD_M};
			Instr a = r.instr(w[r.below(7)]); a.dst = d; if ((a.src & 7) == d) a.src = (uint8_t)((d + 3) & 7);
			Instr m = r.instr(w[r.below(5)]); m.dst = e; if ((m.src & 7) == e) m.src = (uint8_t)((e + 3) & 7);
			Instr n = r.instr(IMUL_RCP); n.dst = (uint8_t)(d | (r.u() & 0xf8)); n.imm = r.chance(20) ? 0 : (1u << r.below(32));
			Instr c = r.instr(CBRANCH); c.dst = d;
			put(p + 8 * b, a); put(p + 8 * (b + 1), m); put(p + 8 * (b + 2), n); put(p + 8 * (b + 3), c);
		}
		break;
	}
	default: for (int i = 0; i < N; ++i) put(p + 8 * i, r.instr()); break;
	}
	for (auto& o : ov) if (o.pos >= 0 && o.pos < N) put(p + 8 * o.pos, o.ins);
}

// static classification of a program (labels, non-triviality): uses only the opcode ranges and spec field rules
struct Feat { bool srcEqDstMem = false, r4r5 = false, rcpNoop = false, cfround = false, cbranch = false, storeL3 = false, branchToStart = false, istoreSrcEqDst = false; int types[NTYPES] = {0}; };
inline Feat classify(const uint8_t* prog, int nInstr) {
	Feat f;
	bool written[8] = {false};
	bool anyBranch = false;
	for (int i = 0; i < nInstr; ++i) {
		Instr x = get(prog + 128 + 8 * i);
		int t = typeOf(x.opcode);
		f.types[t]++;
		int d = x.dst & 7, s = x.src & 7;
		if (isMemInt(t) && d == s) f.srcEqDstMem = true;
		if (d == 4 || d == 5 || s == 4 || s == 5) f.r4r5 = true;
		if (t == IMUL_RCP && (x.imm & (x.imm - 1)) == 0) f.rcpNoop = true;
		if (t == CFROUND) f.cfround = true;
		if (t == ISTORE && (x.mod >> 4) >= 14) f.storeL3 = true;
		if (t == CBRANCH) { f.cbranch = true; if (!written[d] && !anyBranch) f.branchToStart = true; anyBranch = true; }
		if (t <= ISWAP_R && t != IMUL_RCP) { if (!(t == ISWAP_R && d == s)) { written[d] = true; if (t == ISWAP_R) written[s] = true; } }
		if (t == IMUL_RCP && (x.imm & (x.imm - 1)) != 0) written[d] = true;
	}
	return f;
}

inline std::vector<uint8_t> nopBytes() { std::vector<uint8_t> b(8); put(b.data(), nopEquivalent()); return b; }
struct ProgCase {
	std::vector<uint8_t> prog;   // 3200 bytes
	int v2 = 0, hardAes = 0, secure = 0, fast = 1, fprc = 0, spadClass = 0, shape = 0;
	uint64_t spadSeed = 0;
	int nInstr() const { return v2 ? RANDOMX_PROGRAM_SIZE_V2 : RANDOMX_PROGRAM_SIZE_V1; }
	std::string dump() const {
		return vh::KVWriter()("shape", shapeName(shape))("v2", (uint64_t)v2)("hardAes", (uint64_t)hardAes)("secure", (uint64_t)secure)("fast", (uint64_t)fast)("fprc", (uint64_t)fprc)
			("spadClass", (uint64_t)spadClass)("spadSeed", spadSeed).bytes("nopword", nopBytes().data(), 8).bytes("prog", prog.data(), prog.size()).str();
	}
	static ProgCase parse(const vh::KV& kv) {
		ProgCase c;
		c.prog = vh::unhex(vh::gets(kv, "prog")); c.prog.resize(ProgramBytes);
		c.v2 = (int)vh::getu(kv, "v2"); c.hardAes = (int)vh::getu(kv, "hardAes"); c.secure = (int)vh::getu(kv, "secure"); c.fast = (int)vh::getu(kv, "fast", 1);
		c.fprc = (int)vh::getu(kv, "fprc"); c.spadClass = (int)vh::getu(kv, "spadClass"); c.spadSeed = vh::getu(kv, "spadSeed");
		std::string s = vh::gets(kv, "shape"); for (int i = 0; i < NSHAPES; ++i) if (s == shapeName(i)) c.shape = i;
		return c;
	}
	uint64_t hash() const { return vh::fnv(prog.data(), prog.size(), v2 * 16 + hardAes * 8 + secure * 4 + fast * 2); }
};

inline rc::Gen<Instr> genInstrRc() {
	using namespace rc;
	return gen::apply([](uint8_t op, uint8_t d, uint8_t s, uint8_t m, uint32_t imm, int tsel, bool same) {
		Instr i{op, d, s, m, imm};
		if (tsel < NTYPES && types()[tsel].hi > types()[tsel].lo) i.opcode = (uint8_t)(types()[tsel].lo + op % (types()[tsel].hi - types()[tsel].lo));
		if (same) i.src = (uint8_t)((i.src & 0xf8) | (i.dst & 7));
		return i;
	}, gen::arbitrary<uint8_t>(), gen::arbitrary<uint8_t>(), gen::arbitrary<uint8_t>(), gen::arbitrary<uint8_t>(), vh::genU32(), gen::inRange(0, 2 * NTYPES), gen::arbitrary<bool>());
}

// shapes: weights per shape index; fastPct: percentage of fast-mode cases
inline rc::Gen<ProgCase> genProgCase(std::vector<int> shapeWeights, int fastPct, bool allowSecure = true) {
	using namespace rc;
	int total = 0; for (int w : shapeWeights) total += w;
	auto shapeGen = gen::map(gen::resize(100, gen::inRange(0, total)), [shapeWeights](int x) { for (int i = 0; i < (int)shapeWeights.size(); ++i) { if (x < shapeWeights[i]) return i; x -= shapeWeights[i]; } return 0; });
	auto ovGen = gen::resize(100, gen::container<std::vector<std::pair<int, Instr>>>(gen::pair(gen::inRange(0, RANDOMX_PROGRAM_MAX_SIZE), genInstrRc())));
	return gen::resize(100, gen::apply([=](int shape, uint64_t seed, int satType, std::vector<std::pair<int, Instr>> ov, int v2, int aes, int secure, int fastRoll, int fprc, int spadClass, uint64_t spadSeed) {
		ProgCase c;
		c.shape = shape; c.v2 = v2; c.hardAes = aes; c.secure = allowSecure ? secure : 0; c.fast = fastRoll < fastPct; c.fprc = fprc; c.spadClass = spadClass; c.spadSeed = spadSeed;
		std::vector<Override> o;
		if (ov.size() > 16) ov.resize(16);
		for (auto& p : ov) o.push_back({p.first, p.second});
		c.prog.resize(ProgramBytes);
		expand(c.prog.data(), shape, seed, satType, o);
		return c;
	}, shapeGen, gen::arbitrary<uint64_t>(), gen::inRange(0, (int)NTYPES), ovGen, gen::inRange(0, 2), gen::inRange(0, 2), gen::inRange(0, 2), gen::inRange(0, 100), gen::inRange(0, 4),
		gen::map(gen::inRange(0, 11), [](int x) { return x < 6 ? 0 : x < 7 ? 1 : x < 8 ? 2 : x < 10 ? 3 : 4; }), gen::arbitrary<uint64_t>()));
}

// instruction-wise minimisation of a failing program case (delta debugging: replace instructions by the NOP-equivalent,
// zero configuration quadwords). stillFails must be deterministic.
inline ProgCase minimize(ProgCase c, const std::function<bool(const ProgCase&)>& stillFails0) {
	const int N = RANDOMX_PROGRAM_MAX_SIZE;
	// every candidate runs under the crash/hang attribution of the harness runtime
	// (bounded: minimisation quality is best effort, it never decides pass/fail; 400 candidates or 120 s)
	long budget = 400; time_t t0 = time(nullptr);
	auto stillFails = [&](const ProgCase& t) { if (budget-- <= 0 || time(nullptr) - t0 > 120) return false; vh::current(t.dump()); bool r = stillFails0(t); vh::clearCurrent(); return r; };
	uint8_t nopb[8]; put(nopb, nopEquivalent());
	// halves first, then single instructions
	for (int span = N / 2; span >= 1; span /= 2) {
		for (int s = 0; s + span <= N; s += span) {
			ProgCase t = c; bool changed = false;
			for (int i = s; i < s + span; ++i) if (memcmp(t.prog.data() + 128 + 8 * i, nopb, 8) != 0) { memcpy(t.prog.data() + 128 + 8 * i, nopb, 8); changed = true; }
			if (changed && stillFails(t)) c = t;
		}
	}
	for (int q = 0; q < 16; ++q) { ProgCase t = c; memset(t.prog.data() + 8 * q, 0, 8); if (memcmp(t.prog.data(), c.prog.data(), 128) != 0 && stillFails(t)) c = t; }
	{ ProgCase t = c; t.spadClass = 1; if (c.spadClass != 1 && stillFails(t)) c = t; }
	{ ProgCase t = c; t.fprc = 0; if (c.fprc != 0 && stillFails(t)) c = t; }
	// simplify fields of the remaining instructions
	for (int i = 0; i < N; ++i) {
		if (memcmp(c.prog.data() + 128 + 8 * i, nopb, 8) == 0) continue;
		Instr x = get(c.prog.data() + 128 + 8 * i);
		for (int f = 0; f < 4; ++f) {
			Instr y = x;
			if (f == 0) y.dst &= 7; else if (f == 1) y.src &= 7; else if (f == 2) y.mod = 0; else y.imm = 0;
			if (memcmp(&y, &x, sizeof y) == 0) continue;
			ProgCase t = c; put(t.prog.data() + 128 + 8 * i, y);
			if (stillFails(t)) { c = t; x = y; }
		}
	}
	return c;
}

} // namespace pg
