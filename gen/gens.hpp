// Shared rapidcheck generators for keys, inputs, lengths (DESIGN.md 3.1)
#pragma once
#include "harness/vh.hpp"

namespace vg {
using namespace rc;

inline Gen<int> genLenBiased(std::vector<int> special, int uniMax) {
	return gen::resize(100, gen::oneOf(gen::elementOf(special), gen::inRange(0, uniMax + 1)));
}
// byte strings described by (length, style, seed): shrink to short / zero-ish strings and serialise compactly
struct Bytes {
	std::vector<uint8_t> v;
	std::string hex() const { return vh::hex(v.data(), v.size()); }
};
inline Gen<std::vector<uint8_t>> genBytesLen(Gen<int> lenGen) {
	return gen::mapcat(lenGen, [](int n) {
		return gen::resize(100, gen::oneOf(
			gen::container<std::vector<uint8_t>>((size_t)n, gen::arbitrary<uint8_t>()),
			gen::map(gen::arbitrary<uint8_t>(), [n](uint8_t b) { return std::vector<uint8_t>((size_t)n, b); }),
			gen::map(gen::arbitrary<uint64_t>(), [n](uint64_t s) { std::vector<uint8_t> v((size_t)n); vh::XorShift x(s); x.fill(v.data(), v.size()); return v; }),
			gen::map(gen::arbitrary<uint8_t>(), [n](uint8_t b) { std::vector<uint8_t> v((size_t)n); for (int i = 0; i < n; ++i) v[i] = (uint8_t)(b + i); return v; })));
	});
}
inline Gen<std::vector<uint8_t>> genKey() {
	return genBytesLen(genLenBiased({0, 1, 12, 31, 32, 59, 60, 61, 63, 64, 65, 127, 128, 129, 200, 500}, 96));
}
inline Gen<std::vector<uint8_t>> genInput() {
	return genBytesLen(genLenBiased({0, 1, 55, 63, 64, 65, 76, 127, 128, 129, 255, 256, 257, 1000, 4095, 4096, 4097}, 300));
}
inline Gen<std::vector<uint8_t>> genMessage() {
	return genBytesLen(genLenBiased({0, 1, 55, 63, 64, 65, 111, 112, 127, 128, 129, 255, 256, 257, 383, 384, 385, 1000, 4095, 4096, 4097}, 520));
}
inline std::string lenClass(size_t n) {
	if (n == 0) return "0";
	if (n < 128) return "<128";
	if (n == 128) return "128";
	if (n % 128 == 0) return "k*128";
	if (n % 128 == 1) return "k*128+1";
	if (n % 128 == 127) return "k*128-1";
	return ">128";
}
} // namespace vg
