"""Texts for MANIFEST.json (level claims, trusted base, technique) per property."""
ENGINES = [
    dict(name='rapidcheck', path='/verif/harness', serves_properties=[], kind_free_text='property-based testing (generators + shrinking) driven programmatically per sub-check; 16 worker processes'),
    dict(name='libFuzzer', path='/verif/fuzz', serves_properties=[], kind_free_text='coverage-guided fuzzing with semantic oracles inside the target (ASan)'),
]
NOTES = 'All checks: python3 verif.py run <ID> --tier quick|thorough; honours VERIF_SEED / VERIF_TIER; rebuilds from /repo working tree (content hash). Exit 0 held, 1 VIOLATION, 2 inconclusive/build failure.'
NOT_APPLICABLE = {}
META = {}
META['C18'] = dict(
    text='Generated-input search: 2M (quick) / 20M (thorough) boundary-biased divisors and runs of consecutive divisors against a 128-bit floor-division oracle, '
         'three-way with the C and the assembly routine; thorough additionally enumerates all 2^32-33 divisors (exhaustive for the reciprocal claim). '
         'The no-op rule is explored over divisor x register x opcode x preceding-writer combinations in the decoder and through JIT/interpreter program equality.',
    note='Trusted: unsigned __int128 division of libgcc; the harness reading of "last-writer table" = CBRANCH target in decoded bytecode.',
    technique='property-based testing (rapidcheck) with arithmetic reference oracle; exhaustive enumeration in thorough tier',
)
