"""Texts for MANIFEST.json (level claims, trusted base, technique) per property."""
ENGINES = [
    dict(name='rapidcheck', path='/verif/harness', serves_properties=[], kind_free_text='property-based testing (generators + shrinking) driven programmatically per sub-check; 16 worker processes'),
    dict(name='libFuzzer', path='/verif/fuzz', serves_properties=[], kind_free_text='coverage-guided fuzzing with semantic oracles inside the target (ASan)'),
]
NOTES = 'All checks: python3 verif.py run <ID> --tier quick|thorough; honours VERIF_SEED / VERIF_TIER; rebuilds from /repo working tree (content hash). Exit 0 held, 1 VIOLATION, 2 inconclusive/build failure.'
NOT_APPLICABLE = {}
META = {}
META['C18'] = dict(
    text='Generated-input search: 2M (quick) / 20M (thorough) boundary-biased divisors and runs of consecutive divisors against a 128-bit floor-division oracle, '
         'three-way with the C and the assembly routine; thorough additionally enumerates all 2^32-33 divisors (exhaustive for the reciprocal claim). '
         'The no-op rule is explored over divisor x register x opcode x preceding-writer combinations in the decoder and through JIT/interpreter program equality.',
    note='Trusted: unsigned __int128 division of libgcc; the harness reading of "last-writer table" = CBRANCH target in decoded bytecode.',
    technique='property-based testing (rapidcheck) with arithmetic reference oracle; exhaustive enumeration in thorough tier',
)

META['C11'] = dict(
    text='Generated-input search over (message, outlen, key, chunking, injected counter state, invalid parameter tuples, commitment inputs) against an '
         'independent RFC 7693 model; 360k cases quick / 8.4M thorough plus a > 4 GiB stream. Exploration, not proof: lengths beyond ~4 GiB and counters '
         'other than the injected near-wrap values are unexplored.',
    note='Trusted: model/ref_blake2b.cpp (checked at setup against the RFC vector and 2000 CPython hashlib digests); state injection relies on the public blake2b_state layout.',
    technique='property-based testing (rapidcheck) against an independent reference model; metamorphic chunking relation',
)
META['C12'] = dict(
    text='All T-table entries enumerated; generated (state,key) pairs and (seed,size,buffer) cases through the four AES functions in both the table-driven and '
         'the AES-NI instantiation, compared with a FIPS-197 model whose S-box is computed rather than copied. Exploration of a 2^256 domain: the single-byte '
         'isolating states cover every table entry in every byte route, everything else is sampled.',
    note='Trusted: model/ref_aes.cpp (self-tested against FIPS-197 App.B and the CPU AESENC/AESDEC at setup). The AES code emitted by the JIT is covered by C04, not here.',
    technique='property-based testing (rapidcheck) against an independent reference model + differential soft/hard + exhaustive table enumeration',
)
