"""Texts for MANIFEST.json (level claims, trusted base, technique) per property."""
ENGINES = [
    dict(name='rapidcheck', path='/verif/harness', serves_properties=[], kind_free_text='property-based testing (generators + shrinking) driven programmatically per sub-check; 16 worker processes'),
    dict(name='libFuzzer', path='/verif/fuzz', serves_properties=[], kind_free_text='coverage-guided fuzzing with semantic oracles inside the target (ASan)'),
]
NOTES = 'All checks: python3 verif.py run <ID> --tier quick|thorough; honours VERIF_SEED / VERIF_TIER; rebuilds from /repo working tree (content hash). Exit 0 held, 1 VIOLATION, 2 inconclusive/build failure.'
NOT_APPLICABLE = {}
META = {}
META['C18'] = dict(
    text='Generated-input search: 2M (quick) / 20M (thorough) boundary-biased divisors and runs of consecutive divisors against a 128-bit floor-division oracle, '
         'three-way with the C and the assembly routine; thorough additionally enumerates all 2^32-33 divisors (exhaustive for the reciprocal claim). '
         'The no-op rule is explored over divisor x register x opcode x preceding-writer combinations in the decoder and through JIT/interpreter program equality.',
    note='Trusted: unsigned __int128 division of libgcc; the harness reading of "last-writer table" = CBRANCH target in decoded bytecode.',
    technique='property-based testing (rapidcheck) with arithmetic reference oracle; exhaustive enumeration in thorough tier',
)

META['C11'] = dict(
    text='Generated-input search over (message, outlen, key, chunking, injected counter state, invalid parameter tuples, commitment inputs) against an '
         'independent RFC 7693 model; 360k cases quick / 8.4M thorough plus a > 4 GiB stream. Exploration, not proof: lengths beyond ~4 GiB and counters '
         'other than the injected near-wrap values are unexplored.',
    note='Trusted: model/ref_blake2b.cpp (checked at setup against the RFC vector and 2000 CPython hashlib digests); state injection relies on the public blake2b_state layout.',
    technique='property-based testing (rapidcheck) against an independent reference model; metamorphic chunking relation',
)
META['C12'] = dict(
    text='All T-table entries enumerated; generated (state,key) pairs and (seed,size,buffer) cases through the four AES functions in both the table-driven and '
         'the AES-NI instantiation, compared with a FIPS-197 model whose S-box is computed rather than copied. Exploration of a 2^256 domain: the single-byte '
         'isolating states cover every table entry in every byte route, everything else is sampled.',
    note='Trusted: model/ref_aes.cpp (self-tested against FIPS-197 App.B and the CPU AESENC/AESDEC at setup). The AES code emitted by the JIT is covered by C04, not here.',
    technique='property-based testing (rapidcheck) against an independent reference model + differential soft/hard + exhaustive table enumeration',
)

META['C04'] = dict(
    text='Differential property-based testing: generated program buffers are injected (link-time wrap of the program generator) into the shipped run() of an '
         'interpreted and a JIT-compiled VM of the same configuration; 13.5k programs quick / 660k thorough, each 2048 iterations, full register file + 2 MiB '
         'scratchpad + MXCSR compared. Exploration of a 2^25600 space with a generator biased to the encodings the JIT special-cases.',
    note='Trusted: the interpreter as comparison side (a defect shared by both engines is invisible here; C05 compares the interpreter with the spec model). '
         'Emitted code is not sanitizer-instrumented.',
    technique='differential property-based testing (rapidcheck + instruction-wise delta-debugging minimiser), interpreter vs x86 JIT',
)
META['C07'] = dict(
    text='Three generated checks: branch-constant arithmetic on the decoder\'s own constants (3M quick / 200M thorough triples with forced carry patterns), structural '
         'invariant over decoded bytecode and the JIT\'s emitted jz displacements (20k / 1M programs), and instruction counting while stepping the interpreter plus JIT '
         'equality on branch-heavy programs under a per-case hang watchdog. The universal arithmetic claim is sampled, not proved.',
    note='Trusted: harness reading of the bytecode fields; per-case 90 s watchdog (>1000x a normal case) is the only clock and a timeout must reproduce 3 times.',
    technique='property-based testing (rapidcheck): arithmetic invariant + structural validity predicate + step-counting invariant',
)

META['C06'] = dict(
    text='Generated adversarial programs and buffer placements executed with every buffer the property names fenced: ASan/bounds instrumentation for compiled C/C++ code, '
         'PROT_NONE guard pages adjacent to scratchpad, cache, dataset and code buffers for JIT-emitted code, checksums over previously emitted code, canaries and guard pages '
         'around API input/output. 4.4k cases quick / 360k thorough. A violation shows as a fault, a sanitizer report or a changed checksum; absence is evidence only for the explored cases.',
    note='Trusted: page-granular guards for emitted code (an out-of-bounds access that stays inside the same page-multiple buffer is by definition in bounds); synthetic dataset contents.',
    technique='property-based testing (rapidcheck) with memory-safety oracles: guard pages, ASan, code checksums, canaries; driver-side delta debugging of crashing cases',
)
