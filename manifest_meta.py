"""Texts for MANIFEST.json (level claims, trusted base, technique) per property."""
ENGINES = [
    dict(name='rapidcheck', path='/verif/harness', serves_properties=['C%02d' % i for i in range(1, 21)], kind_free_text='property-based testing (generators + shrinking) driven programmatically per sub-check; 16 worker processes'),
    dict(name='libFuzzer', path='/verif/fuzz', serves_properties=['C04', 'C05', 'C11', 'C12'], kind_free_text='coverage-guided fuzzing with semantic oracles inside the target (ASan)'),
]
NOTES = 'All checks: python3 verif.py run <ID> --tier quick|thorough; honours VERIF_SEED / VERIF_TIER; rebuilds from /repo working tree (content hash). Exit 0 held, 1 VIOLATION, 2 inconclusive/build failure.'
NOT_APPLICABLE = {}
META = {}
META['C18'] = dict(
    text='Generated-input search: 2M (quick) / 50M (thorough) boundary-biased divisors and runs of consecutive divisors against a 128-bit floor-division oracle, '
         'three-way with the C and the assembly routine; both tiers additionally enumerate all 2^32-33 divisors (exhaustive for the reciprocal claim; a seeded change hitting 828 of 2^32 divisors showed that sampling 2M of them is not enough). '
         'The no-op rule is explored over divisor x register x opcode x preceding-writer combinations in the decoder and through JIT/interpreter program equality.',
    note='Trusted: unsigned __int128 division of libgcc; the harness reading of "last-writer table" = CBRANCH target in decoded bytecode.',
    technique='property-based testing (rapidcheck) with arithmetic reference oracle; exhaustive enumeration of all divisors in both tiers',
)

META['C11'] = dict(
    text='Generated-input search over (message, outlen, key, chunking, injected counter state, invalid parameter tuples, commitment inputs) against an '
         'independent RFC 7693 model; 360k cases quick / 22M thorough, messages of more than 4 GiB handed over in one call (2 quick / 16 thorough) and as chunked streams (thorough), '
         'plus a libFuzzer campaign (480k / 40M executions) with the same oracle. Exploration, not proof: counters other than the injected near-wrap values are unexplored.',
    note='Trusted: model/ref_blake2b.cpp (checked at setup against the RFC vector and 2000 CPython hashlib digests); state injection relies on the public blake2b_state layout.',
    technique='property-based testing (rapidcheck) and coverage-guided fuzzing (libFuzzer) against an independent reference model; metamorphic chunking relation',
)
META['C12'] = dict(
    text='All T-table entries enumerated; generated (state,key) pairs and (seed,size,buffer) cases through the four AES functions in both the table-driven and '
         'the AES-NI instantiation, compared with a FIPS-197 model whose S-box is computed rather than copied. Exploration of a 2^256 domain: the single-byte '
         'isolating states cover every table entry in every byte route, everything else is sampled (buffers at 0/16/32/48 bytes from a 64-byte boundary; libFuzzer campaign 80k / 10M executions with the same oracle).',
    note='Trusted: model/ref_aes.cpp (self-tested against FIPS-197 App.B and the CPU AESENC/AESDEC at setup). The AES code emitted by the JIT is covered by C04, not here.',
    technique='property-based testing (rapidcheck) and coverage-guided fuzzing (libFuzzer) against an independent reference model + differential soft/hard + exhaustive table enumeration',
)

META['C04'] = dict(
    text='Differential property-based testing: generated program buffers are injected (link-time wrap of the program generator) into the shipped run() of an '
         'interpreted and a JIT-compiled VM of the same configuration; 13.5k programs quick / 330k thorough (plus a libFuzzer campaign of 8k / 600k executions with the same oracle), each 2048 iterations, full register file + 2 MiB '
         'scratchpad + MXCSR compared. Exploration of a 2^25600 space with a generator biased to the encodings the JIT special-cases.',
    note='Trusted: the interpreter as comparison side (a defect shared by both engines is invisible here; C05 compares the interpreter with the spec model). '
         'Emitted code is not sanitizer-instrumented.',
    technique='differential property-based testing (rapidcheck + instruction-wise delta-debugging minimiser) and coverage-guided fuzzing (libFuzzer), interpreter vs x86 JIT',
)
META['C07'] = dict(
    text='Three generated checks: branch-constant arithmetic on the decoder\'s own constants (12M quick / 200M thorough triples with forced carry patterns), structural '
         'invariant over decoded bytecode and the JIT\'s emitted jz displacements (60k / 1M programs), and instruction counting while stepping the interpreter plus JIT '
         'equality on branch-heavy programs under a per-case hang watchdog. The universal arithmetic claim is sampled, not proved.',
    note='Trusted: harness reading of the bytecode fields; per-case 300 s watchdog (>1000x a normal case) is the only clock and a timeout must reproduce 3 times.',
    technique='property-based testing (rapidcheck): arithmetic invariant + structural validity predicate + step-counting invariant',
)

META['C06'] = dict(
    text='Generated adversarial programs and buffer placements executed with every buffer the property names fenced: ASan/bounds instrumentation for compiled C/C++ code, '
         'PROT_NONE guard pages adjacent to scratchpad, cache, dataset and code buffers for JIT-emitted code, checksums over previously emitted code, canaries and guard pages '
         'around API input/output. 4.4k cases quick / 80k thorough. A violation shows as a fault, a sanitizer report or a changed checksum; absence is evidence only for the explored cases.',
    note='Trusted: page-granular guards for emitted code (an out-of-bounds access that stays inside the same page-multiple buffer is by definition in bounds); synthetic dataset contents.',
    technique='property-based testing (rapidcheck) with memory-safety oracles: guard pages, ASan, code checksums, canaries; driver-side delta debugging of crashing cases',
)

META['C05'] = dict(
    text='Generated instruction sequences executed one instruction at a time by the implementation\'s decoder/executor and by an independent model of specs.md ch.4-5, comparing every '
         'architectural effect after each step (1.9M steps quick / ~100M thorough through rapidcheck, 240k / 6M short programs through a libFuzzer target with the same oracle; all 256 opcodes x 2 versions covered), plus VM programming (4.5), load conversions (4.3) and whole '
         '2048-iteration programs against the model through the real InterpretedVm and JIT. FP invariants are asserted on implementation values. Exploration of 2^64 words x states.',
    note='Trusted: model/ref_vm.cpp as reading of the spec (its whole-hash composition reproduces the 10 published digests); host FPU for IEEE-754 rounding; -fno-access-control used on the harness TU only.',
    technique='property-based testing (rapidcheck) and coverage-guided fuzzing (libFuzzer, seed corpus) against an independent single-step reference model',
)
META['C02'] = dict(
    text='Generated (key,input,version) triples hashed by the library and by an independent executable reading of specs.md ch.2-7 (Blake2b, AES generators, Argon2d fill, SuperscalarHash '
         'generator, dataset items, VM, driver), then re-hashed by two differently compiled builds in separate processes. 640 triples quick (32 keys x 10 inputs) / 2400 thorough; each model hash costs ~0.6 s and each '
         'new key ~2 s, which bounds the exploration.',
    note='Trusted: the model (anchored to RFC 7693/9106, FIPS-197, hashlib, AES-NI and all 10 published digests); the loose parts of spec ch.6 are pinned to upstream behaviour and validated only by those digests and by C09.',
    technique='property-based testing (rapidcheck) against an independent executable specification; cross-build / cross-process differential',
)

META['C09'] = dict(
    text='Generated keys -> the eight generated programs are checked against a validity predicate (the operand rules native back-ends rely on), against an independent model of the generator '
         'instruction for instruction, and executed in the interpreter and in the natively generated x86 code for generated register values. The native-vs-interpreter part also runs the programs with boundary values substituted for their immediates (imm8 / sign-extension corners of the code generator). 48k keys (384k programs) quick / 2M keys thorough.',
    note='Trusted: the model generator for oracle B (its under-specified parts are pinned to upstream and validated through the published digests); oracle A and C do not depend on it.',
    technique='property-based testing (rapidcheck): validity predicate + reference model + interpreter/native differential',
)
META['C10'] = dict(
    text='Generated reduced Argon2d instances through the very entry points cache initialisation uses, for the three fill implementations, and full 256 MiB caches with re-key sequences through the public API, '
         'all compared byte for byte with an independent RFC 9106 model. The empty key is part of every re-key sequence and is passed both as (NULL,0) and as (non-NULL,0). 1.6k reduced + 16 full sequences (144 cache fills) quick; 200k + 256 thorough.',
    note='Trusted: model/ref_argon2.cpp (reproduces the RFC 9106 Argon2d test vector with secret, associated data, 4 lanes and finalisation).',
    technique='property-based testing (rapidcheck) against an independent reference model; n-version differential over three implementations',
)
META['C08'] = dict(
    text='Generated (start,count) partitions and thread assignments for both dataset initialisers on a dataset whose pages are inaccessible except for the requested, canary-filled ranges; every requested '
         'item compared with the light-mode computation and the specification model. 6k call sets quick / 150k + two complete datasets thorough. Schedules are whatever the OS produces for the generated thread assignment.',
    note='Trusted: model item construction (ch.7.3) for the three-way comparison; thread interleavings are not controlled, only varied.',
    technique='property-based testing (rapidcheck): differential (compiled/interpreted/light/model) + page-protection and canary invariants',
)

META['C01'] = dict(
    text='n-version differential over generated (key, input, version): 23 configurations per version (12 VM classes, two complete datasets from both initialisers over generated multi-thread partitions, six cache '
         'variants, both hashing APIs) must all reproduce the digest of the light software-AES interpreter. Per key additionally a sweep of 256 further inputs x 2 versions through six classes on 8 threads (program-dependent deviations of ~1 hash in 500 need hundreds of tuples). 2 keys / ~6.8k hashes quick, 32 keys thorough; each key costs ~90 s (two 2 GiB datasets).',
    note='Trusted: nothing but digest equality; a defect shared by every configuration is invisible (C02). LARGE_PAGES not in the quantifier.',
    technique='differential property-based testing (rapidcheck), n-version equality across configurations',
)

META['C03'] = dict(
    text='Model-based generation of API histories: a harness-side model of caches, datasets and VMs (key, epoch, binding, version, batch in flight) decides which generated command is admissible under the documented '
         'contract and what every returned digest must be; the real objects run under an allocator that fills fresh blocks with garbage, poisons freed ones and reuses big-block addresses. 50 histories (~340 compared digests) '
         'quick / 1312 thorough. Histories shrink as whole command sequences (rapidcheck + in-process and driver-side ddmin).',
    note='Trusted: the encoding of the documented contract in the preconditions; the fresh-object digest as oracle (its agreement with the spec is C02).',
    technique='stateful / model-based property testing (rapidcheck command sequences, sequence shrinking) with fresh-object differential oracle',
)
META['C16'] = dict(
    text='The C03 history generator restricted to secure JIT VMs, with every mmap/mprotect/munmap of the library interposed: a W+X request, a W+X region after any command, or an rwx line in /proc/self/maps over a '
         'library-owned range is a violation. 50 histories quick (~600 protection changes) / 1312 thorough.',
    note='Trusted: link-time interposition sees all protection requests of the statically linked library; /proc/self/maps as cross-check at command granularity only.',
    technique='stateful property testing (rapidcheck command sequences) with an invariant over the interposed page-protection history',
)

META['C13'] = dict(
    text='Generated entry MXCSR words (any of the 2^16 control/status combinations) x VM configuration x inputs, for the single call (digest independence + bit-exact restore, two hashes back to back) and for the '
         'pipelined API (independent entry state before each call). 15 VM configurations incl. five fast-mode classes. 640 cases quick / 30k thorough; the non-trivial rule requires the hash to end in a non-default rounding mode so that a missing reset cannot hide behind the restore.',
    note='Trusted: stmxcsr/ldmxcsr around the call; x87 control word is not part of the property on x86-64 (SSE arithmetic only).',
    technique='property-based testing (rapidcheck): metamorphic relation (digest invariant under entry FP state) + state-restoration invariant',
)

META['C15'] = dict(
    text='Exhaustive fault enumeration: every creating call x every supported flag combination x huge-page behaviour x every index k of a failing request (333 plans incl. the fault-free ones, each in its own child process), '
         'with heap / mapping accounting by link-time interposition; plus generated multi-fault and create/use/release cycle sequences (160 quick / 1200 thorough); between creation and release every object is used (re-initialisation with keys of growing and shrinking length, rebinding, both hashing APIs, dataset ranges) with all requests accounted. The plan space is finite and covered completely on every run.',
    note='Trusted: interposition sees posix_memalign, operator new and mmap/munmap of the statically linked library; libstdc++\'s exception-object malloc is out of reach; huge pages are simulated with the munmap rule measured on this kernel.',
    technique='exhaustive fault-injection enumeration + property-based testing (rapidcheck) of fault/cycle sequences with leak-accounting invariant',
)

META['C14'] = dict(
    text='Generated multi-thread workloads (threads x operation lists x yields) over one shared cache (in half of the workloads freshly keyed with no VM attached yet), one shared complete dataset read by fast-mode VMs and one shared sparse dataset being initialised, executed in a ThreadSanitizer build: results must equal the sequential results and '
         'TSan\'s happens-before analysis must stay silent, which flags conflicting unsynchronised accesses of sibling threads independently of the timing that happened to occur. 40 workloads quick / 288 thorough.',
    note='Trusted: TSan (clang 14) instrumentation of the C/C++ sources; JIT-emitted stores are invisible to it; schedules are sampled, not enumerated - a race needing a narrow timing window *and* falling outside TSan\'s history can be missed.',
    technique='property-based testing (rapidcheck) of generated thread workloads under a happens-before race detector + sequential-equivalence oracle',
)

META['C17'] = dict(
    text='Cross-build differential: the same tree compiled with the x86 feature macros undefined (generic C++ fallbacks) is loaded next to the default build; generated operands (1.6M quick / 100M thorough), programs '
         '(640 / 24k, through the real interpreter loop of both builds) and (key,input,version) triples with dataset items and rounding-mode preservation are compared.',
    note='Trusted: undefining the macros reproduces the code a port without those features compiles; endianness-dependent fallbacks cannot be exercised on a little-endian host.',
    technique='differential property-based testing (rapidcheck) between two build configurations of the same tree',
)

META['C19'] = dict(
    text='Translation-style differential by generated programs: the ARM64 emitter (portable C++) runs on the host and emits real A64 code next to the cross-assembled hand-written runtime; an instruction-subset emulator '
         'executes it with all memory accesses region-checked; register file, scratchpad and rounding mode must equal the host interpreter on the same injected program; the emitted dataset-init code must reproduce '
         'interpreter items. 640 programs + 128 ranges (half of them over SuperscalarHash programs with boundary immediates) quick / 12k + 2.4k thorough. Found and fixed: ISUB_R with imm32 = 0x80000000.',
    note='Trusted: the emulator (emu/a64.hpp, ~60 instruction forms; decode of every executed word cross-checked against llvm-objdump; semantics validated only indirectly by full agreement with the interpreter on the unchanged tree). '
         'The aarch64-only eMask copy in CompiledVm::execute is done by the harness (blind spot).',
    technique='differential property-based testing (rapidcheck) of emitted AArch64 code under an instruction-subset emulator vs the interpreter',
)

META['C20'] = dict(
    text='Same construction as C19 for the scalar RISC-V back-end: host-run emitter + cross-assembled runtime + RV64GC instruction-subset emulator (RV64IMD, Zicsr frm, C) with region-checked memory, compared with the host '
         'interpreter on generated programs and with interpreter dataset items. 640 programs + 128 ranges (half of them over SuperscalarHash programs with boundary immediates) quick / 12k + 2.4k thorough. Found and fixed: ISUB_R with imm32 = 0x80000000.',
    note='Trusted: the emulator (emu/rv64.hpp; decode of every executed word cross-checked against llvm-objdump; semantics validated indirectly by full agreement with the interpreter on the unchanged tree). Zba/Zbb #ifdef paths and the vector back-end are not compiled.',
    technique='differential property-based testing (rapidcheck) of emitted RV64GC code under an instruction-subset emulator vs the interpreter',
)
