#!/bin/bash
# usage: tools/seed_verify2.sh ID 'demo command run from the worktree'  -- for seeds whose demonstration is a script
ID=$1; CMD=$2; D=/tmp/seed-$ID; cd $D || exit 3
git checkout -q -- src
cmake -G Ninja -B _build -DCMAKE_BUILD_TYPE=Release . >/dev/null 2>&1; cmake --build _build -j8 >/dev/null 2>&1 || { echo "ORIGINAL BUILD FAILED"; exit 3; }
timeout 1200 bash -c "$CMD" > SEED/demo.orig.out 2>&1; R0=$?
git apply SEED/patch.diff || { echo "PATCH DOES NOT APPLY"; exit 3; }
cmake --build _build -j8 >/dev/null 2>&1 || { echo "CHANGED BUILD FAILED"; exit 3; }
PASSED=$(./_build/randomx-tests 2>&1 | grep -c "PASSED")
timeout 1200 bash -c "$CMD" > SEED/demo.changed.out 2>&1; R1=$?
echo "seed $ID: demo(original) exit=$R0, tests PASSED lines=$PASSED (expect 106), demo(changed) exit=$R1"
if [ $R0 -eq 0 ] && [ $PASSED -eq 106 ] && [ $R1 -ne 0 ]; then
  mkdir -p /verif/seeded/$ID; cp SEED/patch.diff SEED/README.md /verif/seeded/$ID/; for f in demo.cpp demo.sh build_demo.sh demo_driver.cpp harness.cpp; do [ -f SEED/$f ] && cp SEED/$f /verif/seeded/$ID/; done
  echo CONFIRMED; exit 0
fi
echo NOT-CONFIRMED; tail -3 SEED/demo.orig.out SEED/demo.changed.out; exit 1
