#!/bin/bash
# usage: tools/seed2_verify.sh ID 'command (run from the worktree) that builds+runs the demonstration; exit 0 = pass'
# later-round seeds: ROUND=2 (default): scratch worktree /tmp/seed2-ID, stored as /verif/seeded/IDb; ROUND=3: /tmp/seed3-ID -> /verif/seeded/IDc
ID=$1; CMD=$2; ROUND=${ROUND:-2}; SUF=b; [ "$ROUND" = 3 ] && SUF=c; [ "$ROUND" = 4 ] && SUF=d; D=/tmp/seed$ROUND-$ID; cd $D || exit 3
[ -f SEED/patch.diff ] || { echo "no patch"; exit 3; }
git checkout -q -- src
cmake -G Ninja -B _build -DCMAKE_BUILD_TYPE=Release . >/dev/null 2>&1; cmake --build _build -j8 >/dev/null 2>&1 || { echo "ORIGINAL BUILD FAILED"; exit 3; }
timeout 1800 bash -c "$CMD" > SEED/demo.orig.out 2>&1; R0=$?
git apply SEED/patch.diff || { echo "PATCH DOES NOT APPLY"; exit 3; }
cmake --build _build -j8 >/dev/null 2>&1 || { echo "CHANGED BUILD FAILED"; exit 3; }
PASSED=$(./_build/randomx-tests 2>&1 | grep -c "PASSED")
timeout 1800 bash -c "$CMD" > SEED/demo.changed.out 2>&1; R1=$?
echo "seed$ROUND $ID: demo(original) exit=$R0, tests PASSED lines=$PASSED (expect 106), demo(changed) exit=$R1"
if [ $R0 -eq 0 ] && [ $PASSED -eq 106 ] && [ $R1 -ne 0 ]; then
  mkdir -p /verif/seeded/${ID}${SUF}; cp SEED/patch.diff SEED/README.md /verif/seeded/${ID}${SUF}/
  for f in SEED/*.cpp SEED/*.sh SEED/*.c SEED/*.h SEED/*.hpp SEED/*.S SEED/*.py; do [ -f $f ] && cp $f /verif/seeded/${ID}${SUF}/; done
  echo CONFIRMED; exit 0
fi
echo NOT-CONFIRMED; tail -3 SEED/demo.orig.out SEED/demo.changed.out; exit 1
