#!/bin/bash
# usage: tools/sens.sh NAME FILE 'sed-expr' CHECK [CHECK...]   -- sensitivity: mutate a scratch copy, expect VIOLATION
# or:    tools/sens.sh NAME @patch.diff - CHECK...              -- apply a patch instead
NAME=$1; FILE=$2; EXPR=$3; shift 3
D=/tmp/rx-mut-$NAME
rm -rf $D; mkdir -p $D
rsync -a --exclude _build --exclude .git /repo/ $D/
if [[ "$FILE" == @* ]]; then
  (cd $D && patch -p1 -s < "${FILE#@}") || { echo "PATCH FAILED"; exit 3; }
else
  cp $D/src/$FILE /tmp/rx-mut-$NAME.orig
  sed -i "$EXPR" $D/src/$FILE
  if cmp -s $D/src/$FILE /tmp/rx-mut-$NAME.orig; then echo "MUTATION DID NOT APPLY"; rm -rf $D /tmp/rx-mut-$NAME.orig; exit 3; fi
  diff /tmp/rx-mut-$NAME.orig $D/src/$FILE | head -8
  rm -f /tmp/rx-mut-$NAME.orig
fi
TH=$(VERIF_REPO=$D python3 -c "import sys; sys.path.insert(0,'/verif'); import verif; print(verif.tree_hash())")
RC=0
for C in "$@"; do
  mkdir -p /tmp/rx-sens-ev   # evidence of mutated runs never lands in /verif/evidence
  START=$(date +%s)
  OUT=$(VERIF_EVIDENCE_DIR=/tmp/rx-sens-ev VERIF_REPO=$D python3 /verif/verif.py run $C --tier ${TIER:-quick} 2>&1); R=$?
  END=$(date +%s)
  echo "== $NAME $C exit=$R ($((END-START))s)"; echo "$OUT" | grep -E "VIOLATION|reason|KNOWN|INCONCLUSIVE|BUILD-ERROR|OK property" | head -6
  [ $R -ne 1 ] && RC=1
done
rm -rf $D /verif/build/*-$TH
exit $RC
