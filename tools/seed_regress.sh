#!/bin/bash
# usage: tools/seed_regress.sh [ids...]  -- detection regression: every stored seeded change (seeded/<id>/patch.diff) is applied to a scratch
# copy of /repo and the check(s) recorded as catching it in meta.json are run (quick tier); prints CAUGHT / MISSED per (seed, check).
cd /verif
IDS=${@:-$(ls seeded | sort)}
for ID in $IDS; do
  [ -f seeded/$ID/patch.diff ] || continue
  CHECKS=$(python3 - "$ID" <<'PY'
import json,sys
m=json.load(open('/verif/seeded/%s/meta.json'%sys.argv[1]))
r=m.get('my_checks_quick_tier',{})
own=m['property']
out=[c for c,v in r.items() if ('caught' in v.lower()) and not v.lower().startswith('not caught')]
if own in out: out=[own]          # the check of the seed's own property is the one that has to report it
print(' '.join(out[:1]))
PY
)
  for C in $CHECKS; do
    OUT=$(tools/sens.sh reg$ID @/verif/seeded/$ID/patch.diff - $C 2>&1)
    if echo "$OUT" | grep -q "VIOLATION property=$C"; then R=CAUGHT; else R="MISSED $(echo "$OUT" | grep -E 'OK prop|INCONCL|BUILD|PATCH' | head -1 | cut -c1-80)"; fi
    echo "$ID $C $R $(echo "$OUT" | grep -oE '\([0-9]+s\)' | head -1)"
  done
done
