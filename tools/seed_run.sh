#!/bin/bash
# usage: tools/seed_run.sh ID CHECK [CHECK...] -- apply /verif/seeded/ID/patch.diff to /repo, run the checks (quick), undo.
ID=$1; shift
git -C /repo apply /verif/seeded/$ID/patch.diff || { echo "cannot apply"; exit 3; }
TH=$(cd /verif && python3 -c "import verif; print(verif.tree_hash())")
for C in "$@"; do
  cp /verif/evidence/$C.json /tmp/ev-$C.json 2>/dev/null
  S=$(date +%s); OUT=$(cd /verif && python3 verif.py run $C --tier ${TIER:-quick} 2>&1); R=$?; E=$(date +%s)
  echo "== seeded $ID vs $C: exit=$R ($((E-S))s)"; echo "$OUT" | grep -E "VIOLATION|reason|INCONCLUSIVE|BUILD-ERROR|OK property" | head -5
  cp /tmp/ev-$C.json /verif/evidence/$C.json 2>/dev/null
done
git -C /repo checkout -- .
# remove the build directories of the seeded tree only (content hash computed while the patch was applied)
[ -n "$TH" ] && rm -rf /verif/build/*-$TH
