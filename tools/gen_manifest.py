#!/usr/bin/env python3
"""Regenerates MANIFEST.json from checks.py + manifest_meta.py (keeps it schema-valid)."""
import json, os, sys
V = os.path.dirname(os.path.dirname(os.path.abspath(__file__)))
sys.path.insert(0, V)
import checks, manifest_meta as mm
props = [json.loads(l) for l in open(os.path.join(V, 'properties.jsonl'))]
ids = [p['id'] for p in props]
out = dict(version=1,
           setup_cmd='python3 verif.py setup',
           hooks=dict(guard='RANDOMX_VERIF_HOOKS',
                      enable='none needed: no source hooks; harnesses observe through link-time --wrap interposition and -fno-access-control on harness TUs only',
                      baseline_off_cmd='cmake -G Ninja -S /repo -B /repo/_build >/dev/null && cmake --build /repo/_build -j16 >/dev/null && cd /repo/_build && ./randomx-tests',
                      source_commits=[], add_only=True),
           engines=mm.ENGINES, checks=[], notes=mm.NOTES, not_applicable=[])
for i in ids:
    if i in checks.CHECKS and i in mm.META:
        m = mm.META[i]
        c = checks.CHECKS[i]
        out['checks'].append(dict(property_id=i,
                                  quick_cmd='python3 verif.py run %s --tier quick' % i,
                                  thorough_cmd='python3 verif.py run %s --tier thorough' % i,
                                  evidence_file='/verif/evidence/%s.json' % i,
                                  replay_cmd_template='python3 verif.py replay %s {path}' % i,
                                  engine=m.get('engine', 'rapidcheck'),
                                  level_claimed=dict(category=c['level'], text=m['text'], design_ref=m.get('design_ref', 'DESIGN.md section 6 ' + i)),
                                  level_note=m['note'], technique=m['technique']))
    else:
        out['not_applicable'].append(dict(property_id=i, reason=mm.NOT_APPLICABLE.get(i, 'check not built yet in this revision (work in progress, see DESIGN.md section 10)')))
json.dump(out, open(os.path.join(V, 'MANIFEST.json'), 'w'), indent=1)
print('MANIFEST.json: %d checks, %d not_applicable' % (len(out['checks']), len(out['not_applicable'])))
