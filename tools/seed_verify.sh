#!/bin/bash
# usage: tools/seed_verify.sh ID ["extra demo link flags"]  -- confirm a seeded change in its scratch worktree /tmp/seed-ID:
#   original tree: builds, demo passes; changed tree: builds, 105 tests pass, demo fails. Then copies the deliverables to /verif/seeded/ID.
ID=$1; EXTRA=$2
D=/tmp/seed-$ID
cd $D || exit 3
[ -f SEED/patch.diff ] || { echo "no patch"; exit 3; }
LOG=/tmp/seed-$ID.verify.log; : > $LOG
git checkout -q -- src
cmake -G Ninja -B _build -DCMAKE_BUILD_TYPE=Release . >/dev/null 2>&1; cmake --build _build -j8 >>$LOG 2>&1 || { echo "ORIGINAL BUILD FAILED"; exit 3; }
g++ -O2 -std=c++17 -Isrc SEED/demo.cpp _build/librandomx.a -lpthread $EXTRA -o SEED/demo >>$LOG 2>&1 || { echo "DEMO BUILD FAILED (original)"; tail -5 $LOG; exit 3; }
timeout 900 ./SEED/demo > SEED/demo.orig.out 2>&1; R0=$?
git apply SEED/patch.diff || { echo "PATCH DOES NOT APPLY"; exit 3; }
cmake --build _build -j8 >>$LOG 2>&1 || { echo "CHANGED BUILD FAILED"; exit 3; }
PASSED=$(./_build/randomx-tests 2>&1 | grep -c "PASSED")
g++ -O2 -std=c++17 -Isrc SEED/demo.cpp _build/librandomx.a -lpthread $EXTRA -o SEED/demo >>$LOG 2>&1 || { echo "DEMO BUILD FAILED (changed)"; exit 3; }
timeout 900 ./SEED/demo > SEED/demo.changed.out 2>&1; R1=$?
echo "seed $ID: demo(original) exit=$R0, tests PASSED lines=$PASSED (expect 106), demo(changed) exit=$R1"
if [ $R0 -eq 0 ] && [ $PASSED -eq 106 ] && [ $R1 -ne 0 ]; then
  mkdir -p /verif/seeded/$ID; cp SEED/patch.diff SEED/demo.cpp SEED/README.md /verif/seeded/$ID/
  echo CONFIRMED; exit 0
fi
echo NOT-CONFIRMED; tail -3 SEED/demo.orig.out SEED/demo.changed.out; exit 1
