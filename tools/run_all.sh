#!/bin/bash
# usage: tools/run_all.sh [quick|thorough] [ids...] -- runs the registered checks sequentially on /repo, prints one line per check
TIER=${1:-quick}; shift
IDS=${@:-C01 C02 C03 C04 C05 C06 C07 C08 C09 C10 C11 C12 C13 C14 C15 C16 C17 C18 C19 C20}
cd /verif
for C in $IDS; do
  S=$(date +%s); OUT=$(python3 verif.py run $C --tier $TIER 2>&1); R=$?; E=$(date +%s)
  echo "$C exit=$R $((E-S))s :: $(echo "$OUT" | grep -E "OK property|VIOLATION|INCONCLUSIVE|KNOWN-FINDING|BUILD-ERROR" | head -2 | tr '\n' ' ' | cut -c1-220)"
done
