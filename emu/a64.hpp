// AArch64 instruction-subset emulator (DESIGN.md C19): interprets exactly the instruction forms that occur in the hand-written
// runtime (jit_compiler_a64_static.S) and in the words the A64 emitter produces. Guest addresses are host addresses (same
// little-endian LP64 layouts). Every memory access is checked against registered regions; an unknown encoding is a hard error.
// Semantics follow the Arm ARM (DDI 0487) pseudo-code for each form; FP arithmetic uses host IEEE-754 binary64 under the guest's
// FPCR.RMode; AES instructions use the FIPS-197 model (model/ref_aes).
#pragma once
#include <cstdint>
#include <cstring>
#include <cmath>
#include <map>
#include <string>
#include <vector>
#include <xmmintrin.h>
#include "ref_aes.hpp"

namespace a64 {

struct Region { uintptr_t lo, hi; bool writable; const char* name; };

struct Cpu {
	uint64_t x[31]; uint64_t sp; uint64_t pc;
	uint64_t v[32][2];
	bool n = false, z = false, c = false, vf = false;
	uint64_t fpcr = 0;
	std::vector<Region> regions;
	std::string error;
	uint64_t steps = 0;
	std::map<uint32_t, const char*>* trace = nullptr;   // distinct executed words -> mnemonic (for the llvm-objdump cross-check)

	uint64_t xr(unsigned r) const { return r == 31 ? 0 : x[r]; }                 // register or XZR
	uint64_t xsp(unsigned r) const { return r == 31 ? sp : x[r]; }               // register or SP
	void setx(unsigned r, uint64_t val) { if (r != 31) x[r] = val; }
	void setxsp(unsigned r, uint64_t val) { if (r == 31) sp = val; else x[r] = val; }

	bool ok(uint64_t addr, size_t n, bool write) {
		for (auto& r : regions) if (addr >= r.lo && addr + n <= r.hi) { if (write && !r.writable) { error = std::string("write to read-only region ") + r.name; return false; } return true; }
		char b[96]; snprintf(b, sizeof b, "%s of %zu bytes at %#llx outside every known region", write ? "store" : "load", n, (unsigned long long)addr); error = b; return false;
	}
	template <class T> bool ld(uint64_t a, T& out) { if (!ok(a, sizeof(T), false)) return false; memcpy(&out, (const void*)a, sizeof(T)); return true; }
	template <class T> bool st(uint64_t a, T val) { if (!ok(a, sizeof(T), true)) return false; memcpy((void*)a, &val, sizeof(T)); return true; }

	static uint64_t ror64(uint64_t v, unsigned s) { s &= 63; return s ? (v >> s) | (v << (64 - s)) : v; }
	static uint32_t ror32(uint32_t v, unsigned s) { s &= 31; return s ? (v >> s) | (v << (32 - s)) : v; }
	// DecodeBitMasks (Arm ARM shared/functions/instrs)
	static bool decodeBitMasks(unsigned N, unsigned imms, unsigned immr, bool immediate, int datasize, uint64_t& wmask, uint64_t& tmask) {
		int len = -1; unsigned comb = (N << 6) | (~imms & 0x3f);
		for (int i = 6; i >= 0; --i) if (comb & (1u << i)) { len = i; break; }
		if (len < 1) return false;
		unsigned levels = (1u << len) - 1;
		if (immediate && (imms & levels) == levels) return false;
		unsigned S = imms & levels, R = immr & levels;
		int diff = (int)S - (int)R;
		unsigned esize = 1u << len;
		unsigned d = (unsigned)diff & levels;
		uint64_t welem = (S + 1 >= 64) ? ~0ULL : ((1ULL << (S + 1)) - 1), telem = (d + 1 >= 64) ? ~0ULL : ((1ULL << (d + 1)) - 1);
		auto rorE = [&](uint64_t v, unsigned s) { s %= esize; if (!s) return v; uint64_t m = esize == 64 ? ~0ULL : ((1ULL << esize) - 1); return ((v >> s) | (v << (esize - s))) & m; };
		auto rep = [&](uint64_t e) { uint64_t r = 0; for (unsigned i = 0; i < 64; i += esize) r |= e << i; return esize == 64 ? e : r; };
		wmask = rep(rorE(welem, R)); tmask = rep(telem);
		if (datasize == 32) { wmask &= 0xffffffffULL; tmask &= 0xffffffffULL; }
		return true;
	}
	bool condHolds(unsigned cond) const {
		bool r;
		switch (cond >> 1) { case 0: r = z; break; case 1: r = c; break; case 2: r = n; break; case 3: r = vf; break; case 4: r = c && !z; break; case 5: r = n == vf; break; case 6: r = n == vf && !z; break; default: r = true; break; }
		if ((cond & 1) && cond != 15) r = !r;
		return r;
	}
	uint64_t addWithCarry(uint64_t a, uint64_t b, bool cin, bool sf, bool setflags) {
		if (sf) {
			unsigned __int128 us = (unsigned __int128)a + b + cin; __int128 ss = (__int128)(int64_t)a + (int64_t)b + cin;
			uint64_t r = (uint64_t)us;
			if (setflags) { n = r >> 63; z = r == 0; c = (us >> 64) != 0; vf = ss != (__int128)(int64_t)r; }
			return r;
		}
		uint32_t a32 = (uint32_t)a, b32 = (uint32_t)b;
		uint64_t us = (uint64_t)a32 + b32 + cin; int64_t ss = (int64_t)(int32_t)a32 + (int32_t)b32 + cin;
		uint32_t r = (uint32_t)us;
		if (setflags) { n = r >> 31; z = r == 0; c = (us >> 32) != 0; vf = ss != (int64_t)(int32_t)r; }
		return r;
	}
	void note(uint32_t w, const char* m) { if (trace && !trace->count(w)) (*trace)[w] = m; }

	struct HostRounding { uint32_t saved; explicit HostRounding(uint64_t fpcr) { saved = _mm_getcsr(); static const uint32_t map[4] = {0u, 2u, 1u, 3u}; /* Arm RMode RN,RP,RM,RZ -> MXCSR.RC nearest,up(2),down(1),zero */ unsigned rm = (fpcr >> 22) & 3; _mm_setcsr(0x1F80u | (map[rm] << 13) | ((fpcr >> 24) & 1 ? 0x8040u : 0)); } ~HostRounding() { _mm_setcsr(saved); } };
	static double asD(uint64_t u) { double d; memcpy(&d, &u, 8); return d; }
	static uint64_t asU(double d) { uint64_t u; memcpy(&u, &d, 8); return u; }

	// executes one instruction at pc; returns false on error (message in 'error')
	bool step() {
		uint32_t w;
		if (!ld(pc, w)) { error = "instruction fetch: " + error; return false; }
		++steps;
		uint64_t next = pc + 4;
		const unsigned rd = w & 31, rn = (w >> 5) & 31, rm = (w >> 16) & 31, ra = (w >> 10) & 31;
		const bool sf = w >> 31;
		#define DONE(m) do { note(w, m); pc = next; return true; } while (0)
		// ---- branches ------------------------------------------------------------------------------------------
		if ((w & 0x7C000000) == 0x14000000) { int64_t off = ((int64_t)(int32_t)(w << 6)) >> 4; if (w >> 31) { x[30] = pc + 4; } next = pc + off; DONE((w >> 31) ? "bl" : "b"); }
		if ((w & 0xFF000010) == 0x54000000) { int64_t off = ((int64_t)(int32_t)((w >> 5) << 13)) >> 11; if (condHolds(w & 15)) next = pc + off; DONE("b.cond"); }
		if ((w & 0xFFFFFC1F) == 0xD65F0000) { next = xr(rn); DONE("ret"); }
		if ((w & 0x9F000000) == 0x10000000) { int64_t imm = (((int64_t)(int32_t)((w >> 5) << 13)) >> 11) | ((w >> 29) & 3); setx(rd, pc + imm); DONE("adr"); }
		// ---- system ----------------------------------------------------------------------------------------------
		if ((w & 0xFFFFFFE0) == 0xD53B4400) { setx(rd, fpcr); DONE("mrs"); }
		if ((w & 0xFFFFFFE0) == 0xD51B4400) { fpcr = xr(rd) & 0xFFFFFFFFULL; DONE("msr"); }
		if (w == 0xD503201F) DONE("nop");
		// ---- data processing, immediate ------------------------------------------------------------------------------
		if ((w & 0x1F800000) == 0x11000000) {   // ADD/SUB (immediate)
			uint64_t imm = (w >> 10) & 0xfff; if ((w >> 22) & 1) imm <<= 12;
			bool sub = (w >> 30) & 1, S = (w >> 29) & 1;
			uint64_t a = xsp(rn); if (!sf) a &= 0xffffffffULL;
			uint64_t r = sub ? addWithCarry(a, sf ? ~imm : (~imm & 0xffffffffULL), true, sf, S) : addWithCarry(a, imm, false, sf, S);
			if (S) setx(rd, r); else setxsp(rd, r);
			DONE(sub ? (S ? "subs" : "sub") : (S ? "adds" : "add"));
		}
		if ((w & 0x1F800000) == 0x12000000) {   // logical (immediate)
			unsigned opc = (w >> 29) & 3, N = (w >> 22) & 1, immr = (w >> 16) & 63, imms = (w >> 10) & 63;
			if (!sf && N) { error = "reserved logical immediate"; return false; }
			uint64_t wm, tm; if (!decodeBitMasks(N, imms, immr, true, sf ? 64 : 32, wm, tm)) { error = "reserved bitmask immediate"; return false; }
			uint64_t a = xr(rn); if (!sf) a &= 0xffffffffULL;
			uint64_t r = opc == 0 || opc == 3 ? (a & wm) : opc == 1 ? (a | wm) : (a ^ wm);
			if (!sf) r &= 0xffffffffULL;
			if (opc == 3) { n = sf ? (r >> 63) : (r >> 31) & 1; z = r == 0; c = false; vf = false; setx(rd, r); } else setxsp(rd, r);
			DONE(opc == 0 ? "and" : opc == 1 ? "orr" : opc == 2 ? "eor" : "ands");
		}
		if ((w & 0x1F800000) == 0x12800000) {   // move wide
			unsigned opc = (w >> 29) & 3, hw = (w >> 21) & 3; uint64_t imm = (uint64_t)((w >> 5) & 0xffff) << (16 * hw);
			if (!sf && hw > 1) { error = "reserved move wide"; return false; }
			uint64_t r;
			if (opc == 0) r = ~imm; else if (opc == 2) r = imm; else if (opc == 3) r = (xr(rd) & ~((uint64_t)0xffff << (16 * hw))) | imm; else { error = "reserved move wide opc"; return false; }
			if (!sf) r &= 0xffffffffULL;
			setx(rd, r); DONE(opc == 0 ? "movn" : opc == 2 ? "movz" : "movk");
		}
		if ((w & 0x1F800000) == 0x13000000) {   // bitfield
			unsigned opc = (w >> 29) & 3, N = (w >> 22) & 1, immr = (w >> 16) & 63, imms = (w >> 10) & 63;
			if (N != (unsigned)sf) { error = "reserved bitfield"; return false; }
			uint64_t wm, tm; if (!decodeBitMasks(N, imms, immr, false, sf ? 64 : 32, wm, tm)) { error = "reserved bitfield mask"; return false; }
			uint64_t src = xr(rn), dst = xr(rd); if (!sf) { src &= 0xffffffffULL; dst &= 0xffffffffULL; }
			uint64_t rot = sf ? ror64(src, immr) : ror32((uint32_t)src, immr);
			uint64_t r;
			if (opc == 1) { uint64_t bot = (dst & ~wm) | (rot & wm); r = (dst & ~tm) | (bot & tm); }             // BFM
			else if (opc == 2) { r = (rot & wm) & tm; }                                                          // UBFM
			else if (opc == 0) { uint64_t bot = rot & wm; bool sign = (src >> imms) & 1; uint64_t top = sign ? ~0ULL : 0; r = (top & ~tm) | (bot & tm); }   // SBFM
			else { error = "reserved bitfield opc"; return false; }
			if (!sf) r &= 0xffffffffULL;
			setx(rd, r); DONE(opc == 1 ? "bfm" : opc == 2 ? "ubfm" : "sbfm");
		}
		if ((w & 0x1F800000) == 0x13800000) {   // EXTR
			unsigned imms = (w >> 10) & 63;
			if (((w >> 29) & 3) != 0 || ((w >> 22) & 1) != (unsigned)sf || ((w >> 21) & 1)) { error = "reserved extr"; return false; }
			uint64_t r;
			if (sf) { uint64_t hi = xr(rn), lo = xr(rm); r = imms ? (lo >> imms) | (hi << (64 - imms)) : lo; }
			else { uint32_t hi = (uint32_t)xr(rn), lo = (uint32_t)xr(rm); if (imms > 31) { error = "reserved extr imms"; return false; } r = imms ? (uint32_t)((lo >> imms) | (hi << (32 - imms))) : lo; }
			setx(rd, r); DONE("extr");
		}
		// ---- data processing, register ---------------------------------------------------------------------------------
		if ((w & 0x1F000000) == 0x0A000000) {   // logical (shifted register)
			unsigned opc = (w >> 29) & 3, sh = (w >> 22) & 3, N = (w >> 21) & 1, amt = (w >> 10) & 63;
			if (!sf && amt > 31) { error = "reserved shift amount"; return false; }
			uint64_t b = xr(rm); if (!sf) b &= 0xffffffffULL;
			if (sf) b = sh == 0 ? b << amt : sh == 1 ? b >> amt : sh == 2 ? (uint64_t)((int64_t)b >> amt) : ror64(b, amt);
			else { uint32_t b32 = (uint32_t)b; b = sh == 0 ? (uint32_t)(b32 << amt) : sh == 1 ? b32 >> amt : sh == 2 ? (uint32_t)((int32_t)b32 >> amt) : ror32(b32, amt); }
			if (N) b = ~b;
			uint64_t a = xr(rn); uint64_t r = opc == 0 || opc == 3 ? a & b : opc == 1 ? a | b : a ^ b;
			if (!sf) r &= 0xffffffffULL;
			if (opc == 3) { n = sf ? r >> 63 : (r >> 31) & 1; z = r == 0; c = vf = false; }
			setx(rd, r); DONE(opc == 0 ? "and" : opc == 1 ? "orr" : opc == 2 ? "eor" : "ands");
		}
		if ((w & 0x1F200000) == 0x0B000000) {   // ADD/SUB (shifted register)
			bool sub = (w >> 30) & 1, S = (w >> 29) & 1; unsigned sh = (w >> 22) & 3, amt = (w >> 10) & 63;
			if (sh == 3 || (!sf && amt > 31)) { error = "reserved add/sub shift"; return false; }
			uint64_t b = xr(rm); if (!sf) b &= 0xffffffffULL;
			if (sf) b = sh == 0 ? b << amt : sh == 1 ? b >> amt : (uint64_t)((int64_t)b >> amt);
			else { uint32_t b32 = (uint32_t)b; b = sh == 0 ? (uint32_t)(b32 << amt) : sh == 1 ? b32 >> amt : (uint32_t)((int32_t)b32 >> amt); }
			uint64_t a = xr(rn); if (!sf) a &= 0xffffffffULL;
			uint64_t r = sub ? addWithCarry(a, sf ? ~b : (~b & 0xffffffffULL), true, sf, S) : addWithCarry(a, b, false, sf, S);
			setx(rd, r); DONE(sub ? (S ? "subs" : "sub") : (S ? "adds" : "add"));
		}
		if ((w & 0x1F000000) == 0x1B000000) {   // data processing (3 source)
			unsigned op31 = (w >> 21) & 7, o0 = (w >> 15) & 1;
			if (!sf) { error = "32-bit 3-source form not expected"; return false; }
			if (op31 == 0) { uint64_t p = xr(rn) * xr(rm); setx(rd, o0 ? xr(ra) - p : xr(ra) + p); DONE(o0 ? "msub" : "madd"); }
			if (op31 == 2 && !o0) { setx(rd, (uint64_t)(((__int128)(int64_t)xr(rn) * (int64_t)xr(rm)) >> 64)); DONE("smulh"); }
			if (op31 == 6 && !o0) { setx(rd, (uint64_t)(((unsigned __int128)xr(rn) * xr(rm)) >> 64)); DONE("umulh"); }
			error = "unsupported 3-source data processing"; return false;
		}
		if ((w & 0x5FE00000) == 0x1AC00000) {   // data processing (2 source)
			unsigned opcode = (w >> 10) & 63;
			if (!sf || ((w >> 29) & 1)) { error = "unsupported 2-source form"; return false; }
			uint64_t a = xr(rn), b = xr(rm) & 63;
			if (opcode == 0x0B) { setx(rd, ror64(a, (unsigned)b)); DONE("ror"); }
			if (opcode == 0x08) { setx(rd, a << b); DONE("lsl"); }
			if (opcode == 0x09) { setx(rd, a >> b); DONE("lsr"); }
			if (opcode == 0x0A) { setx(rd, (uint64_t)((int64_t)a >> b)); DONE("asr"); }
			error = "unsupported 2-source data processing"; return false;
		}
		if ((w & 0xFFFFFC00) == 0xDAC00000) { uint64_t a = xr(rn), r = 0; for (int i = 0; i < 64; ++i) if (a & (1ULL << i)) r |= 1ULL << (63 - i); setx(rd, r); DONE("rbit"); }
		// ---- loads and stores ------------------------------------------------------------------------------------------
		if ((w & 0x3A000000) == 0x28000000) {   // load/store pair
			unsigned opc = w >> 30, V = (w >> 26) & 1, mode = (w >> 23) & 7, L = (w >> 22) & 1, rt = rd, rt2 = ra;
			int64_t imm7 = ((int64_t)(int32_t)((w >> 15) << 25)) >> 25;
			if (mode != 1 && mode != 2 && mode != 3) { error = "unsupported pair addressing mode"; return false; }
			unsigned scale = V ? 2 + opc : (opc == 2 ? 3 : 2);
			if (V && opc == 3) { error = "reserved pair opc"; return false; }
			if (!V && opc == 3) { error = "reserved pair opc"; return false; }
			int64_t off = imm7 * (1LL << scale);
			uint64_t base = xsp(rn), addr = mode == 1 ? base : base + off;
			size_t sz = (size_t)1 << scale;
			if (V) {
				for (int k = 0; k < 2; ++k) { unsigned r = k ? rt2 : rt; uint64_t a = addr + k * sz;
					if (L) { uint64_t lo = 0, hi = 0; if (sz == 16) { if (!ld(a, lo) || !ld(a + 8, hi)) return false; } else if (sz == 8) { if (!ld(a, lo)) return false; } else { uint32_t t; if (!ld(a, t)) return false; lo = t; } v[r][0] = lo; v[r][1] = hi; }
					else { if (sz == 16) { if (!st(a, v[r][0]) || !st(a + 8, v[r][1])) return false; } else if (sz == 8) { if (!st(a, v[r][0])) return false; } else { if (!st(a, (uint32_t)v[r][0])) return false; } } }
			}
			else if (opc == 1) {   // LDPSW
				if (!L) { error = "stgp not supported"; return false; }
				int32_t a, b; if (!ld(addr, a) || !ld(addr + 4, b)) return false; setx(rt, (uint64_t)(int64_t)a); setx(rt2, (uint64_t)(int64_t)b);
			}
			else {
				for (int k = 0; k < 2; ++k) { unsigned r = k ? rt2 : rt; uint64_t a = addr + k * sz;
					if (L) { if (sz == 8) { uint64_t t; if (!ld(a, t)) return false; setx(r, t); } else { uint32_t t; if (!ld(a, t)) return false; setx(r, t); } }
					else { if (sz == 8) { if (!st(a, xr(r))) return false; } else { if (!st(a, (uint32_t)xr(r))) return false; } } }
			}
			if (mode == 1 || mode == 3) setxsp(rn, base + off);
			DONE(V ? (L ? "ldp(simd)" : "stp(simd)") : opc == 1 ? "ldpsw" : L ? "ldp" : "stp");
		}
		if ((w & 0x3B000000) == 0x18000000) {   // load register (literal)
			unsigned opc = w >> 30, V = (w >> 26) & 1; int64_t off = ((int64_t)(int32_t)((w >> 5) << 13)) >> 11; uint64_t a = pc + off;
			if (V) { if (opc == 2) { if (!ld(a, v[rd][0]) || !ld(a + 8, v[rd][1])) return false; } else if (opc == 1) { if (!ld(a, v[rd][0])) return false; v[rd][1] = 0; } else { error = "unsupported simd literal size"; return false; } DONE("ldr(literal,simd)"); }
			if (opc == 1) { uint64_t t; if (!ld(a, t)) return false; setx(rd, t); DONE("ldr(literal)"); }
			if (opc == 0) { uint32_t t; if (!ld(a, t)) return false; setx(rd, t); DONE("ldr(literal)"); }
			error = "unsupported literal load"; return false;
		}
		if ((w & 0x3A000000) == 0x38000000) {   // load/store register (various)
			unsigned size = w >> 30, V = (w >> 26) & 1, opc = (w >> 22) & 3;
			uint64_t addr; bool writeback = false; uint64_t wbval = 0;
			unsigned scale = size; bool q = false;
			if (V) { if (opc & 2) { if (size != 0) { error = "reserved simd ld/st size"; return false; } q = true; scale = 4; } }
			if (w & (1u << 24)) { addr = xsp(rn) + (((uint64_t)(w >> 10) & 0xfff) << scale); }                                   // unsigned offset
			else if ((w & 0x00200C00) == 0x00200800) {                                                                            // register offset
				unsigned option = (w >> 13) & 7, S = (w >> 12) & 1;
				if (option != 3) { error = "unsupported register-offset extend"; return false; }
				addr = xsp(rn) + (xr(rm) << (S ? scale : 0));
			}
			else if ((w & 0x00200000) == 0 && (w & 0x400)) { int64_t imm9 = ((int64_t)(int32_t)((w >> 12) << 23)) >> 23; bool pre = (w >> 11) & 1; uint64_t base = xsp(rn); addr = pre ? base + imm9 : base; writeback = true; wbval = base + imm9; }   // pre/post index
			else { error = "unsupported load/store addressing form"; return false; }
			bool load = opc & 1;
			if (!V && size == 3 && opc == 2) { DONE("prfm"); }
			if (V) {
				size_t sz = q ? 16 : ((size_t)1 << size);
				if (load) { uint64_t lo = 0, hi = 0; if (sz == 16) { if (!ld(addr, lo) || !ld(addr + 8, hi)) return false; } else if (sz == 8) { if (!ld(addr, lo)) return false; } else if (sz == 4) { uint32_t t; if (!ld(addr, t)) return false; lo = t; } else { error = "unsupported simd load size"; return false; } v[rd][0] = lo; v[rd][1] = hi; }
				else { if (sz == 16) { if (!st(addr, v[rd][0]) || !st(addr + 8, v[rd][1])) return false; } else if (sz == 8) { if (!st(addr, v[rd][0])) return false; } else { error = "unsupported simd store size"; return false; } }
			}
			else {
				if (opc > 1) { error = "unsupported sign-extending load"; return false; }
				if (load) { if (size == 3) { uint64_t t; if (!ld(addr, t)) return false; setx(rd, t); } else if (size == 2) { uint32_t t; if (!ld(addr, t)) return false; setx(rd, t); } else { error = "unsupported load size"; return false; } }
				else { if (size == 3) { if (!st(addr, xr(rd))) return false; } else if (size == 2) { if (!st(addr, (uint32_t)xr(rd))) return false; } else { error = "unsupported store size"; return false; } }
			}
			if (writeback) setxsp(rn, wbval);
			DONE(V ? (load ? "ldr(simd)" : "str(simd)") : (load ? "ldr" : "str"));
		}
		// ---- SIMD / FP ------------------------------------------------------------------------------------------------
		if ((w & 0xFFE0FC00) == 0x4E001C00) {   // INS (general)
			unsigned imm5 = (w >> 16) & 31;
			if (imm5 & 8 && !(imm5 & 7)) { v[rd][(imm5 >> 4) & 1] = xr(rn); DONE("ins(general)"); }
			if ((imm5 & 7) == 4) { unsigned idx = imm5 >> 3; uint32_t val = (uint32_t)xr(rn); uint64_t& q = v[rd][idx >> 1]; unsigned sh = (idx & 1) * 32; q = (q & ~(0xffffffffULL << sh)) | ((uint64_t)val << sh); DONE("ins(general)"); }
			error = "unsupported ins element size"; return false;
		}
		if ((w & 0xFFE08400) == 0x6E000400) {   // INS (element)
			unsigned imm5 = (w >> 16) & 31, imm4 = (w >> 11) & 15;
			if ((imm5 & 15) == 8) { v[rd][(imm5 >> 4) & 1] = v[rn][(imm4 >> 3) & 1]; DONE("ins(element)"); }
			error = "unsupported ins(element) size"; return false;
		}
		if ((w & 0xBFE0FC00) == 0x0E003C00) {   // UMOV
			unsigned imm5 = (w >> 16) & 31, Q = (w >> 30) & 1;
			if ((imm5 & 1) && !Q) { unsigned idx = imm5 >> 1; setx(rd, (v[rn][idx >> 3] >> ((idx & 7) * 8)) & 0xff); DONE("umov"); }
			if ((imm5 & 7) == 4 && !Q) { unsigned idx = imm5 >> 3; setx(rd, (v[rn][idx >> 1] >> ((idx & 1) * 32)) & 0xffffffffULL); DONE("umov"); }
			if ((imm5 & 15) == 8 && Q) { setx(rd, v[rn][(imm5 >> 4) & 1]); DONE("umov"); }
			error = "unsupported umov form"; return false;
		}
		if ((w & 0xBFE0FC00) == 0x0E002C00) {   // SMOV
			unsigned imm5 = (w >> 16) & 31, Q = (w >> 30) & 1;
			if ((imm5 & 7) == 4 && Q) { unsigned idx = imm5 >> 3; setx(rd, (uint64_t)(int64_t)(int32_t)((v[rn][idx >> 1] >> ((idx & 1) * 32)) & 0xffffffffULL)); DONE("smov"); }
			error = "unsupported smov form"; return false;
		}
		if ((w & 0xFFFFFC00) == 0x4E61D800) { HostRounding R(fpcr); for (int i = 0; i < 2; ++i) { volatile double d = (double)(int64_t)v[rn][i]; v[rd][i] = asU(d); } DONE("scvtf"); }
		if ((w & 0xFFE0FC00) == 0x4E60D400 || (w & 0xFFE0FC00) == 0x4EE0D400 || (w & 0xFFE0FC00) == 0x6E60DC00 || (w & 0xFFE0FC00) == 0x6E60FC00) {
			HostRounding R(fpcr); unsigned op = (w & 0xFFE0FC00) == 0x4E60D400 ? 0 : (w & 0xFFE0FC00) == 0x4EE0D400 ? 1 : (w & 0xFFE0FC00) == 0x6E60DC00 ? 2 : 3;
			uint64_t r[2];
			for (int i = 0; i < 2; ++i) { volatile double a = asD(v[rn][i]), b = asD(v[rm][i]), o; o = op == 0 ? a + b : op == 1 ? a - b : op == 2 ? a * b : a / b; r[i] = asU(o); }
			v[rd][0] = r[0]; v[rd][1] = r[1]; DONE(op == 0 ? "fadd" : op == 1 ? "fsub" : op == 2 ? "fmul" : "fdiv");
		}
		if ((w & 0xFFFFFC00) == 0x6EE1F800) { HostRounding R(fpcr); for (int i = 0; i < 2; ++i) { volatile double a = asD(v[rn][i]), o; o = std::sqrt(a); v[rd][i] = asU(o); } DONE("fsqrt"); }
		if ((w & 0xFFE0FC00) == 0x6E201C00) { uint64_t a0 = v[rn][0] ^ v[rm][0], a1 = v[rn][1] ^ v[rm][1]; v[rd][0] = a0; v[rd][1] = a1; DONE("eor(vector)"); }
		if ((w & 0xFFE0FC00) == 0x4EA01C00) { uint64_t a0 = v[rn][0] | v[rm][0], a1 = v[rn][1] | v[rm][1]; v[rd][0] = a0; v[rd][1] = a1; DONE("orr(vector)"); }
		if ((w & 0xFFE0FC00) == 0x6EE01C00) { for (int i = 0; i < 2; ++i) { uint64_t d = v[rd][i], nn = v[rn][i], m = v[rm][i]; v[rd][i] = d ^ ((d ^ nn) & ~m); } DONE("bif"); }   // insert Vn bits where Vm bit is 0
		if ((w & 0xFFFFFFE0) == 0x4F000400) { v[rd][0] = v[rd][1] = 0; DONE("movi"); }
		if ((w & 0xFFFFFC00) == 0x1E270000) { v[rd][0] = (uint32_t)xr(rn); v[rd][1] = 0; DONE("fmov"); }
		if ((w & 0xFFFF0C00) == 0x4E280800) {   // AES
			unsigned op = (w >> 12) & 15; uint8_t s[16], k[16], zero[16] = {0};
			memcpy(s, v[rd], 16); memcpy(k, v[rn], 16);
			if (op == 4 || op == 5) {   // AESE / AESD: AddRoundKey, then (Inv)ShiftRows + (Inv)SubBytes
				for (int i = 0; i < 16; ++i) s[i] ^= k[i];
				const auto& T = ref::aesTables(); uint8_t t[16];
				if (op == 4) { for (int c = 0; c < 4; ++c) for (int r = 0; r < 4; ++r) t[r + 4 * c] = T.sbox[s[r + 4 * ((c + r) & 3)]]; }
				else { for (int c = 0; c < 4; ++c) for (int r = 0; r < 4; ++r) t[r + 4 * ((c + r) & 3)] = T.inv[s[r + 4 * c]]; }
				memcpy(v[rd], t, 16); DONE(op == 4 ? "aese" : "aesd");
			}
			if (op == 6 || op == 7) {   // AESMC / AESIMC on Vn -> Vd
				uint8_t t[16];
				for (int c = 0; c < 4; ++c) { uint8_t a0 = k[4 * c], a1 = k[4 * c + 1], a2 = k[4 * c + 2], a3 = k[4 * c + 3];
					if (op == 6) { t[4 * c] = ref::gmul(a0, 2) ^ ref::gmul(a1, 3) ^ a2 ^ a3; t[4 * c + 1] = a0 ^ ref::gmul(a1, 2) ^ ref::gmul(a2, 3) ^ a3; t[4 * c + 2] = a0 ^ a1 ^ ref::gmul(a2, 2) ^ ref::gmul(a3, 3); t[4 * c + 3] = ref::gmul(a0, 3) ^ a1 ^ a2 ^ ref::gmul(a3, 2); }
					else { t[4 * c] = ref::gmul(a0, 14) ^ ref::gmul(a1, 11) ^ ref::gmul(a2, 13) ^ ref::gmul(a3, 9); t[4 * c + 1] = ref::gmul(a0, 9) ^ ref::gmul(a1, 14) ^ ref::gmul(a2, 11) ^ ref::gmul(a3, 13); t[4 * c + 2] = ref::gmul(a0, 13) ^ ref::gmul(a1, 9) ^ ref::gmul(a2, 14) ^ ref::gmul(a3, 11); t[4 * c + 3] = ref::gmul(a0, 11) ^ ref::gmul(a1, 13) ^ ref::gmul(a2, 9) ^ ref::gmul(a3, 14); } }
				(void)zero; memcpy(v[rd], t, 16); DONE(op == 6 ? "aesmc" : "aesimc");
			}
		}
		#undef DONE
		char b[64]; snprintf(b, sizeof b, "unknown or unsupported instruction word %08x at code offset", w); error = b; return false;
	}

	// runs from entry until the return address sentinel is reached
	bool run(uint64_t entry, uint64_t maxSteps) {
		const uint64_t sentinel = 0xDEAD0000DEAD0000ULL;
		x[30] = sentinel; pc = entry; steps = 0;
		while (pc != sentinel) { if (!step()) return false; if (steps > maxSteps) { error = "step budget exceeded (no termination)"; return false; } }
		return true;
	}
};

} // namespace a64
