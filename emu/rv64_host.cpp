// Host compilation of the scalar RV64 emitter (C20). Cpu::hasRVV()/getRVV_Length() exist only under __riscv; the property is about
// the scalar back-end ("no vector extension"), so they are shimmed to "no RVV". The vector code generator and its hand-written
// runtime are never reached and are provided as aborting stubs.
#include "common.hpp"
#include "cpu.hpp"
#define hasRVV() hasAes() && false
#define getRVV_Length() hasAes() * 0
#include "jit_compiler_rv64.cpp"
#undef hasRVV
#undef getRVV_Length
#include <cstdlib>
extern "C" {
void randomx_riscv64_vector_code_begin() { abort(); }
void randomx_riscv64_vector_code_end() { abort(); }
void randomx_riscv64_vector_program_begin() { abort(); }
void randomx_riscv64_vector_sshash_dataset_init(struct randomx_cache*, uint8_t*, uint32_t, uint32_t) { abort(); }
}
namespace randomx {
void* generateDatasetInitVectorRV64(uint8_t*, SuperscalarProgramList&, std::vector<uint64_t>&) { abort(); }
void* generateProgramVectorRV64(uint8_t*, Program&, ProgramConfiguration&, const uint8_t (&)[256], void*, uint32_t, randomx_flags) { abort(); }
}
