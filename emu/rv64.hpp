// RV64GC instruction-subset emulator (DESIGN.md C20): RV64I + M + D + Zicsr(frm) + C forms that occur in the hand-written runtime
// (jit_compiler_rv64_static.S) and in the words the scalar RV64 emitter produces. Guest addresses are host addresses; every memory
// access is checked against registered regions; an unknown encoding is a hard error. Semantics follow the RISC-V unprivileged ISA
// manual (20191213); FP arithmetic uses host IEEE-754 binary64 under the guest's rounding mode (frm or static rm).
#pragma once
#include <cstdint>
#include <cstring>
#include <cmath>
#include <map>
#include <string>
#include <vector>
#include <xmmintrin.h>

namespace rv64 {

struct Region { uintptr_t lo, hi; bool writable; const char* name; };

struct Cpu {
	uint64_t x[32]; uint64_t f[32]; uint64_t pc; unsigned frm = 0;
	std::vector<Region> regions; std::string error; uint64_t steps = 0;
	std::map<uint32_t, const char*>* trace = nullptr;

	bool ok(uint64_t a, size_t n, bool w) {
		for (auto& r : regions) if (a >= r.lo && a + n <= r.hi) { if (w && !r.writable) { error = std::string("write to read-only region ") + r.name; return false; } return true; }
		char b[96]; snprintf(b, sizeof b, "%s of %zu bytes at %#llx outside every known region", w ? "store" : "load", n, (unsigned long long)a); error = b; return false;
	}
	template <class T> bool ld(uint64_t a, T& o) { if (!ok(a, sizeof(T), false)) return false; memcpy(&o, (const void*)a, sizeof(T)); return true; }
	template <class T> bool st(uint64_t a, T v) { if (!ok(a, sizeof(T), true)) return false; memcpy((void*)a, &v, sizeof(T)); return true; }
	void wr(unsigned r, uint64_t v) { if (r) x[r] = v; }
	void note(uint32_t w, const char* m) { if (trace && !trace->count(w)) (*trace)[w] = m; }

	struct HostRounding { uint32_t saved; bool bad = false; HostRounding(unsigned rm, unsigned frm) { saved = _mm_getcsr(); unsigned m = rm == 7 ? frm : rm; static const uint32_t map[5] = {0u, 3u, 1u, 2u, 0u}; if (m > 4) { bad = true; m = 0; } /* RNE, RTZ, RDN, RUP, RMM(not used) */ _mm_setcsr(0x1F80u | (map[m] << 13)); } ~HostRounding() { _mm_setcsr(saved); } };
	static double asD(uint64_t u) { double d; memcpy(&d, &u, 8); return d; }
	static uint64_t asU(double d) { uint64_t u; memcpy(&u, &d, 8); return u; }
	static int64_t sx(uint64_t v, int bits) { return (int64_t)(v << (64 - bits)) >> (64 - bits); }

	bool step() {
		uint16_t h;
		if (!ld(pc, h)) { error = "instruction fetch: " + error; return false; }
		++steps;
		#define DONE(m) do { note(w, m); pc = next; return true; } while (0)
		if ((h & 3) != 3) {   // ---- compressed ----------------------------------------------------------------------------------
			const uint32_t w = h; uint64_t next = pc + 2;
			const unsigned op = h & 3, f3 = h >> 13;
			const unsigned rdp = 8 + ((h >> 2) & 7), rs1p = 8 + ((h >> 7) & 7), rd = (h >> 7) & 31, rs2 = (h >> 2) & 31;
			if (op == 0) {
				if (f3 == 0) { unsigned imm = ((h >> 7) & 0x30) | ((h >> 1) & 0x3c0) | ((h >> 4) & 4) | ((h >> 2) & 8); if (!imm) { error = "illegal compressed instruction (c.addi4spn 0)"; return false; } wr(rdp, x[2] + imm); DONE("c.addi4spn"); }
				unsigned immD = ((h >> 7) & 0x38) | ((h << 1) & 0xc0);                      // uimm[5:3] bits 12:10, uimm[7:6] bits 6:5
				unsigned immW = ((h >> 7) & 0x38) | ((h >> 4) & 4) | ((h << 1) & 0x40);     // uimm[5:3], uimm[2] bit 6, uimm[6] bit 5
				if (f3 == 1) { uint64_t t; if (!ld(x[rs1p] + immD, t)) return false; f[rdp] = t; DONE("c.fld"); }
				if (f3 == 2) { int32_t t; if (!ld(x[rs1p] + immW, t)) return false; wr(rdp, (uint64_t)(int64_t)t); DONE("c.lw"); }
				if (f3 == 3) { uint64_t t; if (!ld(x[rs1p] + immD, t)) return false; wr(rdp, t); DONE("c.ld"); }
				if (f3 == 5) { if (!st(x[rs1p] + immD, f[rdp])) return false; DONE("c.fsd"); }
				if (f3 == 6) { if (!st(x[rs1p] + immW, (uint32_t)x[rdp])) return false; DONE("c.sw"); }
				if (f3 == 7) { if (!st(x[rs1p] + immD, x[rdp])) return false; DONE("c.sd"); }
				error = "unsupported compressed quadrant 0 instruction"; return false;
			}
			if (op == 1) {
				int64_t imm6 = sx(((h >> 7) & 0x20) | ((h >> 2) & 0x1f), 6);
				if (f3 == 0) { wr(rd, x[rd] + imm6); DONE(rd ? "c.addi" : "c.nop"); }
				if (f3 == 1) { if (!rd) { error = "reserved c.addiw"; return false; } wr(rd, (uint64_t)(int64_t)(int32_t)(x[rd] + imm6)); DONE("c.addiw"); }
				if (f3 == 2) { wr(rd, (uint64_t)imm6); DONE("c.li"); }
				if (f3 == 3) {
					if (rd == 2) { int64_t imm = sx(((h >> 3) & 0x200) | ((h >> 2) & 0x10) | ((h << 1) & 0x40) | ((h << 4) & 0x180) | ((h << 3) & 0x20), 10); if (!imm) { error = "reserved c.addi16sp"; return false; } x[2] += imm; DONE("c.addi16sp"); }
					if (!imm6) { error = "reserved c.lui"; return false; }
					wr(rd, (uint64_t)(imm6 << 12)); DONE("c.lui");
				}
				if (f3 == 4) {
					unsigned f2 = (h >> 10) & 3; unsigned sh = ((h >> 7) & 0x20) | ((h >> 2) & 0x1f);
					if (f2 == 0) { x[rs1p] >>= sh; DONE("c.srli"); }
					if (f2 == 1) { x[rs1p] = (uint64_t)((int64_t)x[rs1p] >> sh); DONE("c.srai"); }
					if (f2 == 2) { x[rs1p] &= (uint64_t)imm6; DONE("c.andi"); }
					unsigned f2b = (h >> 5) & 3;
					if (!((h >> 12) & 1)) { switch (f2b) { case 0: x[rs1p] -= x[rdp]; DONE("c.sub"); case 1: x[rs1p] ^= x[rdp]; DONE("c.xor"); case 2: x[rs1p] |= x[rdp]; DONE("c.or"); default: x[rs1p] &= x[rdp]; DONE("c.and"); } }
					if (f2b == 0) { x[rs1p] = (uint64_t)(int64_t)(int32_t)(x[rs1p] - x[rdp]); DONE("c.subw"); }
					if (f2b == 1) { x[rs1p] = (uint64_t)(int64_t)(int32_t)(x[rs1p] + x[rdp]); DONE("c.addw"); }
					error = "reserved compressed arithmetic"; return false;
				}
				if (f3 == 5) { int64_t off = sx(((h >> 1) & 0x800) | ((h << 2) & 0x400) | ((h >> 1) & 0x300) | ((h << 1) & 0x80) | ((h >> 1) & 0x40) | ((h << 3) & 0x20) | ((h >> 7) & 0x10) | ((h >> 2) & 0xe), 12); next = pc + off; DONE("c.j"); }
				{ int64_t off = sx(((h >> 4) & 0x100) | ((h << 1) & 0xc0) | ((h << 3) & 0x20) | ((h >> 7) & 0x18) | ((h >> 2) & 6), 9); bool take = f3 == 6 ? x[rs1p] == 0 : x[rs1p] != 0; if (take) next = pc + off; DONE(f3 == 6 ? "c.beqz" : "c.bnez"); }
			}
			// op == 2
			if (f3 == 0) { unsigned sh = ((h >> 7) & 0x20) | ((h >> 2) & 0x1f); wr(rd, x[rd] << sh); DONE("c.slli"); }
			if (f3 == 1) { unsigned imm = ((h >> 7) & 0x20) | ((h >> 2) & 0x18) | ((h << 4) & 0x1c0); uint64_t t; if (!ld(x[2] + imm, t)) return false; f[rd] = t; DONE("c.fldsp"); }
			if (f3 == 2) { unsigned imm = ((h >> 7) & 0x20) | ((h >> 2) & 0x1c) | ((h << 4) & 0xc0); int32_t t; if (!rd) { error = "reserved c.lwsp"; return false; } if (!ld(x[2] + imm, t)) return false; wr(rd, (uint64_t)(int64_t)t); DONE("c.lwsp"); }
			if (f3 == 3) { unsigned imm = ((h >> 7) & 0x20) | ((h >> 2) & 0x18) | ((h << 4) & 0x1c0); uint64_t t; if (!rd) { error = "reserved c.ldsp"; return false; } if (!ld(x[2] + imm, t)) return false; wr(rd, t); DONE("c.ldsp"); }
			if (f3 == 4) {
				if (!((h >> 12) & 1)) { if (rs2 == 0) { if (!rd) { error = "reserved c.jr"; return false; } next = x[rd] & ~1ULL; DONE("c.jr"); } wr(rd, x[rs2]); DONE("c.mv"); }
				if (rs2 == 0) { if (!rd) { error = "c.ebreak"; return false; } uint64_t t = x[rd] & ~1ULL; x[1] = pc + 2; next = t; DONE("c.jalr"); }
				wr(rd, x[rd] + x[rs2]); DONE("c.add");
			}
			if (f3 == 5) { unsigned imm = ((h >> 7) & 0x38) | ((h >> 1) & 0x1c0); if (!st(x[2] + imm, f[rs2])) return false; DONE("c.fsdsp"); }
			if (f3 == 6) { unsigned imm = ((h >> 7) & 0x3c) | ((h >> 1) & 0xc0); if (!st(x[2] + imm, (uint32_t)x[rs2])) return false; DONE("c.swsp"); }
			{ unsigned imm = ((h >> 7) & 0x38) | ((h >> 1) & 0x1c0); if (!st(x[2] + imm, x[rs2])) return false; DONE("c.sdsp"); }
		}
		// ---- 32-bit ---------------------------------------------------------------------------------------------------------------
		uint32_t w; if (!ld(pc, w)) { error = "instruction fetch: " + error; return false; }
		uint64_t next = pc + 4;
		const unsigned opc = w & 0x7f, rd = (w >> 7) & 31, f3 = (w >> 12) & 7, rs1 = (w >> 15) & 31, rs2 = (w >> 20) & 31, f7 = w >> 25;
		const int64_t immI = (int64_t)(int32_t)w >> 20;
		const int64_t immS = ((int64_t)(int32_t)(w & 0xfe000000) >> 20) | ((w >> 7) & 31);
		switch (opc) {
		case 0x37: wr(rd, (uint64_t)(int64_t)(int32_t)(w & 0xfffff000)); DONE("lui");
		case 0x17: wr(rd, pc + (uint64_t)(int64_t)(int32_t)(w & 0xfffff000)); DONE("auipc");
		case 0x6f: { int64_t off = sx(((w >> 11) & 0x100000) | (w & 0xff000) | ((w >> 9) & 0x800) | ((w >> 20) & 0x7fe), 21); wr(rd, pc + 4); next = pc + off; DONE("jal"); }
		case 0x67: if (f3 == 0) { uint64_t t = (x[rs1] + immI) & ~1ULL; wr(rd, pc + 4); next = t; DONE("jalr"); } break;
		case 0x63: { int64_t off = sx(((w >> 19) & 0x1000) | ((w << 4) & 0x800) | ((w >> 20) & 0x7e0) | ((w >> 7) & 0x1e), 13); bool t;
			switch (f3) { case 0: t = x[rs1] == x[rs2]; break; case 1: t = x[rs1] != x[rs2]; break; case 4: t = (int64_t)x[rs1] < (int64_t)x[rs2]; break; case 5: t = (int64_t)x[rs1] >= (int64_t)x[rs2]; break; case 6: t = x[rs1] < x[rs2]; break; case 7: t = x[rs1] >= x[rs2]; break; default: error = "reserved branch"; return false; }
			if (t) next = pc + off; static const char* n[8] = {"beq", "bne", "?", "?", "blt", "bge", "bltu", "bgeu"}; DONE(n[f3]); }
		case 0x03: { uint64_t a = x[rs1] + immI;
			switch (f3) { case 0: { int8_t t; if (!ld(a, t)) return false; wr(rd, (uint64_t)(int64_t)t); DONE("lb"); } case 1: { int16_t t; if (!ld(a, t)) return false; wr(rd, (uint64_t)(int64_t)t); DONE("lh"); } case 2: { int32_t t; if (!ld(a, t)) return false; wr(rd, (uint64_t)(int64_t)t); DONE("lw"); }
			case 3: { uint64_t t; if (!ld(a, t)) return false; wr(rd, t); DONE("ld"); } case 4: { uint8_t t; if (!ld(a, t)) return false; wr(rd, t); DONE("lbu"); } case 5: { uint16_t t; if (!ld(a, t)) return false; wr(rd, t); DONE("lhu"); } case 6: { uint32_t t; if (!ld(a, t)) return false; wr(rd, t); DONE("lwu"); } default: break; } break; }
		case 0x23: { uint64_t a = x[rs1] + immS;
			switch (f3) { case 0: if (!st(a, (uint8_t)x[rs2])) return false; DONE("sb"); case 1: if (!st(a, (uint16_t)x[rs2])) return false; DONE("sh"); case 2: if (!st(a, (uint32_t)x[rs2])) return false; DONE("sw"); case 3: if (!st(a, x[rs2])) return false; DONE("sd"); default: break; } break; }
		case 0x13: { unsigned sh = (w >> 20) & 63;
			switch (f3) { case 0: wr(rd, x[rs1] + immI); DONE("addi"); case 2: wr(rd, (int64_t)x[rs1] < immI); DONE("slti"); case 3: wr(rd, x[rs1] < (uint64_t)immI); DONE("sltiu"); case 4: wr(rd, x[rs1] ^ immI); DONE("xori"); case 6: wr(rd, x[rs1] | immI); DONE("ori"); case 7: wr(rd, x[rs1] & immI); DONE("andi");
			case 1: if ((w >> 26) == 0) { wr(rd, x[rs1] << sh); DONE("slli"); } break;
			case 5: if ((w >> 26) == 0) { wr(rd, x[rs1] >> sh); DONE("srli"); } if ((w >> 26) == 0x10) { wr(rd, (uint64_t)((int64_t)x[rs1] >> sh)); DONE("srai"); } break; } break; }
		case 0x1b: if (f3 == 0) { wr(rd, (uint64_t)(int64_t)(int32_t)(x[rs1] + immI)); DONE("addiw"); }
			if (f3 == 1 && f7 == 0) { wr(rd, (uint64_t)(int64_t)(int32_t)((uint32_t)x[rs1] << rs2)); DONE("slliw"); }
			if (f3 == 5 && f7 == 0) { wr(rd, (uint64_t)(int64_t)(int32_t)((uint32_t)x[rs1] >> rs2)); DONE("srliw"); } break;
		case 0x33: {
			uint64_t a = x[rs1], b = x[rs2];
			if (f7 == 0) switch (f3) { case 0: wr(rd, a + b); DONE("add"); case 1: wr(rd, a << (b & 63)); DONE("sll"); case 2: wr(rd, (int64_t)a < (int64_t)b); DONE("slt"); case 3: wr(rd, a < b); DONE("sltu"); case 4: wr(rd, a ^ b); DONE("xor"); case 5: wr(rd, a >> (b & 63)); DONE("srl"); case 6: wr(rd, a | b); DONE("or"); case 7: wr(rd, a & b); DONE("and"); }
			if (f7 == 0x20) { if (f3 == 0) { wr(rd, a - b); DONE("sub"); } if (f3 == 5) { wr(rd, (uint64_t)((int64_t)a >> (b & 63))); DONE("sra"); } }
			if (f7 == 1) switch (f3) { case 0: wr(rd, a * b); DONE("mul"); case 1: wr(rd, (uint64_t)(((__int128)(int64_t)a * (int64_t)b) >> 64)); DONE("mulh"); case 2: wr(rd, (uint64_t)(((__int128)(int64_t)a * (unsigned __int128)b) >> 64)); DONE("mulhsu"); case 3: wr(rd, (uint64_t)(((unsigned __int128)a * b) >> 64)); DONE("mulhu"); default: break; }
			break; }
		case 0x07: if (f3 == 3) { uint64_t t; if (!ld(x[rs1] + immI, t)) return false; f[rd] = t; DONE("fld"); } break;
		case 0x27: if (f3 == 3) { if (!st(x[rs1] + immS, f[rs2])) return false; DONE("fsd"); } break;
		case 0x73: {   // Zicsr: only frm (0x002) / fcsr / fflags accesses
			unsigned csr = w >> 20; if (csr != 2) { error = "unsupported CSR"; return false; }
			uint64_t old = frm, src = (f3 & 4) ? rs1 : x[rs1];
			if ((f3 & 3) == 1) frm = src & 7; else if ((f3 & 3) == 2) { if (rs1) frm = (frm | src) & 7; } else if ((f3 & 3) == 3) { if (rs1) frm = frm & ~src & 7; } else break;
			wr(rd, old); DONE((f3 & 3) == 1 ? "csrrw" : (f3 & 3) == 2 ? "csrrs" : "csrrc"); }
		case 0x53: {
			unsigned rm = f3;
			if (f7 == 0x71 && rs2 == 0 && f3 == 0) { wr(rd, f[rs1]); DONE("fmv.x.d"); }
			if (f7 == 0x79 && rs2 == 0 && f3 == 0) { f[rd] = x[rs1]; DONE("fmv.d.x"); }
			if (f7 == 0x11) { uint64_t a = f[rs1], b = f[rs2]; if (f3 == 0) { f[rd] = (a & ~(1ULL << 63)) | (b & (1ULL << 63)); DONE("fsgnj.d"); } if (f3 == 1) { f[rd] = (a & ~(1ULL << 63)) | (~b & (1ULL << 63)); DONE("fsgnjn.d"); } if (f3 == 2) { f[rd] = a ^ (b & (1ULL << 63)); DONE("fsgnjx.d"); } break; }
			if (f7 == 0x69 && (rs2 == 0 || rs2 == 1 || rs2 == 2)) { HostRounding R(rm, frm); if (R.bad) { error = "invalid rounding mode"; return false; } volatile double d = rs2 == 0 ? (double)(int32_t)x[rs1] : rs2 == 1 ? (double)(uint32_t)x[rs1] : (double)(int64_t)x[rs1]; f[rd] = asU(d); DONE(rs2 == 0 ? "fcvt.d.w" : rs2 == 1 ? "fcvt.d.wu" : "fcvt.d.l"); }
			if (f7 == 0x01 || f7 == 0x05 || f7 == 0x09 || f7 == 0x0d || (f7 == 0x2d && rs2 == 0)) {
				HostRounding R(rm, frm); if (R.bad) { error = "invalid rounding mode"; return false; }
				volatile double a = asD(f[rs1]), b = asD(f[rs2]), o;
				switch (f7) { case 0x01: o = a + b; break; case 0x05: o = a - b; break; case 0x09: o = a * b; break; case 0x0d: o = a / b; break; default: o = std::sqrt(a); break; }
				f[rd] = asU(o); DONE(f7 == 0x01 ? "fadd.d" : f7 == 0x05 ? "fsub.d" : f7 == 0x09 ? "fmul.d" : f7 == 0x0d ? "fdiv.d" : "fsqrt.d");
			}
			break; }
		default: break;
		}
		#undef DONE
		char b[64]; snprintf(b, sizeof b, "unknown or unsupported instruction word %08x", w); error = b; return false;
	}

	bool run(uint64_t entry, uint64_t maxSteps) {
		const uint64_t sentinel = 0xDEAD0000DEAD0000ULL;
		x[0] = 0; x[1] = sentinel; pc = entry; steps = 0;
		while (pc != sentinel) { if (!step()) return false; if (steps > maxSteps) { error = "step budget exceeded (no termination)"; return false; } }
		return true;
	}
};

} // namespace rv64
