// Host compilation of the A64 emitter (C19): the emitter is portable C++ and produces, on any host, exactly the bytes it
// produces on an AArch64 machine. The hand-written runtime it copies from is provided by the cross-assembled blob (see
// verif.py ensure_cross_blob), whose labels are host symbols at the original offsets.
#include "common.hpp"
namespace randomx { class JitCompilerA64; }
#include "jit_compiler_a64.cpp"
