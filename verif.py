#!/usr/bin/env python3
"""Driver for the RandomX property-based verification machinery (see DESIGN.md section 1).

  verif.py setup                       build model, self-test it, pre-build all harnesses
  verif.py run  <ID> [--tier quick|thorough]
  verif.py replay <ID> <path>
  verif.py build <ID>
Environment: VERIF_SEED (int), VERIF_TIER, VERIF_REPO (default /repo), VERIF_JOBS (default 16).
"""
import sys, os, json, hashlib, subprocess, time, fcntl, shutil, struct, glob, signal, re
from concurrent.futures import ThreadPoolExecutor

VERIF = os.path.dirname(os.path.abspath(__file__))
REPO = os.environ.get('VERIF_REPO', '/repo')
JOBS = int(os.environ.get('VERIF_JOBS', '16'))
BUILD = os.path.join(VERIF, 'build')
sys.path.insert(0, VERIF)

# ------------------------------------------------------------------------------------------------
# repository build variants
# ------------------------------------------------------------------------------------------------
REPO_SOURCES = """aes_hash.cpp argon2_ref.c argon2_ssse3.c argon2_avx2.c bytecode_machine.cpp cpu.cpp dataset.cpp
soft_aes.cpp virtual_memory.c vm_interpreted.cpp allocator.cpp assembly_generator_x86.cpp instruction.cpp
randomx.cpp superscalar.cpp vm_compiled.cpp vm_interpreted_light.cpp argon2_core.c blake2_generator.cpp
instructions_portable.cpp reciprocal.c virtual_machine.cpp vm_compiled_light.cpp blake2/blake2b.c
jit_compiler_x86.cpp jit_compiler_x86_static.S""".split()
PER_FILE = {'argon2_ssse3.c': ['-mssse3'], 'argon2_avx2.c': ['-mavx2']}
PORTABLE_U = ['-U__SSE__', '-U__SSE2__', '-U__AES__', '-U__SSSE3__', '-U__AVX2__', '-U__SIZEOF_INT128__',
              '-U__SSE4_1__', '-U__AVX__']

VARIANTS = {
    'rel':  dict(cc='gcc', cxx='g++', flags=['-O2', '-DNDEBUG', '-maes', '-fPIC']),
    'chk':  dict(cc='gcc', cxx='g++', flags=['-O1', '-g', '-maes', '-fPIC']),
    'asan': dict(cc='clang', cxx='clang++', flags=['-O1', '-g', '-maes', '-fPIC', '-fsanitize=address,bounds',
                                                   '-fno-omit-frame-pointer', '-fno-sanitize-recover=bounds']),
    'tsan': dict(cc='clang', cxx='clang++', flags=['-O1', '-g', '-maes', '-fPIC', '-fsanitize=thread']),
    'fuzz': dict(cc='clang', cxx='clang++', flags=['-O1', '-g', '-maes', '-fPIC', '-fsanitize=fuzzer-no-link,address',
                                                   '-fno-omit-frame-pointer']),
    # generic C++ fallbacks: no SSE/AES/int128 macros -> struct based vectors, fenv rounding, 32x32 mulh
    'portable': dict(cc='gcc', cxx='g++', flags=['-O2', '-DNDEBUG', '-fPIC', '-fvisibility=hidden',
                                                  '-frounding-math'] + PORTABLE_U,
                     # the x86 JIT sources are compiled as they are (the VM classes reference JitCompilerX86 because RANDOMX_HAVE_COMPILER follows
                     # __x86_64__); the shim only creates interpreted VMs and caches without RANDOMX_FLAG_JIT, so none of that code runs.
                     # (An earlier version stubbed the JitCompilerX86 members instead, which broke on a harmless refactoring that moved
                     # three of them into the header.)
                     no_per_file=True,
                     extra_src=[os.path.join(VERIF, 'harness', 'portable_shim.cpp')]),
}


def sh(cmd, **kw):
    return subprocess.run(cmd, stdout=subprocess.PIPE, stderr=subprocess.STDOUT, text=True, **kw)


def sha(*parts):
    h = hashlib.sha256()
    for p in parts:
        h.update(p if isinstance(p, bytes) else str(p).encode())
        h.update(b'\0')
    return h.hexdigest()


_tree_hash = None


def tree_hash():
    global _tree_hash
    if _tree_hash is None:
        h = hashlib.sha256()
        files = []
        for root, dirs, fs in os.walk(os.path.join(REPO, 'src')):
            dirs.sort()
            for f in sorted(fs):
                files.append(os.path.join(root, f))
        files.append(os.path.join(REPO, 'CMakeLists.txt'))
        for f in files:
            h.update(os.path.relpath(f, REPO).encode() + b'\0')
            try:
                with open(f, 'rb') as fh:
                    h.update(fh.read())
            except OSError:
                h.update(b'<unreadable>')
            h.update(b'\0')
        _tree_hash = h.hexdigest()[:16]
    return _tree_hash


class BuildError(Exception):
    pass


def compile_many(jobs):
    """jobs: list of (cmd, outfile). Runs up to JOBS in parallel; raises BuildError with output."""
    def one(j):
        cmd, out = j
        if os.path.exists(out):
            return None
        tmp = out + '.tmp%d' % os.getpid()
        c = [x if x != '@OUT@' else tmp for x in cmd]
        r = sh(c)
        if r.returncode != 0:
            return 'FAILED: %s\n%s' % (' '.join(c), r.stdout[-6000:])
        os.replace(tmp, out)
        return None
    with ThreadPoolExecutor(JOBS) as ex:
        errs = [e for e in ex.map(one, jobs) if e]
    if errs:
        raise BuildError('\n'.join(errs))


class Lock:
    def __init__(self, name):
        os.makedirs(BUILD, exist_ok=True)
        self.path = os.path.join(BUILD, '.' + name + '.lock')

    def __enter__(self):
        self.f = open(self.path, 'w')
        fcntl.flock(self.f, fcntl.LOCK_EX)

    def __exit__(self, *a):
        fcntl.flock(self.f, fcntl.LOCK_UN)
        self.f.close()


def variant_dir(variant):
    extra = VARIANTS.get(variant, {}).get('extra_src', [])
    h = tree_hash()
    if extra:
        h = sha(h, *[open(e, 'rb').read() for e in extra])[:16]
    return os.path.join(BUILD, '%s-%s' % (variant, h))


def prune(variant):
    dirs = sorted(glob.glob(os.path.join(BUILD, variant + '-*')), key=os.path.getmtime, reverse=True)
    for d in dirs[3:]:
        shutil.rmtree(d, ignore_errors=True)


def ensure_lib(variant):
    """Build the repository sources for a variant; returns path to static library."""
    v = VARIANTS[variant]
    d = variant_dir(variant)
    lib = os.path.join(d, 'librandomx.a')
    if os.path.exists(lib):
        return lib
    with Lock('lib-' + variant):
        if os.path.exists(lib):
            return lib
        os.makedirs(os.path.join(d, 'obj'), exist_ok=True)
        jobs, objs = [], []
        srcs = [os.path.join(REPO, 'src', s) for s in REPO_SOURCES if s not in v.get('skip', [])]
        srcs += v.get('extra_src', [])
        for p in srcs:
            s = os.path.basename(p)
            o = os.path.join(d, 'obj', s.replace('/', '_') + '.o')
            objs.append(o)
            if s.endswith('.cpp'):
                cmd = [v['cxx'], '-std=gnu++11'] + v['flags']
            elif s.endswith('.S'):
                cmd = [v['cc']] + [f for f in v['flags'] if not f.startswith('-fsanitize')]
            else:
                cmd = [v['cc']] + v['flags']
            cmd += ([] if v.get('no_per_file') else PER_FILE.get(s, [])) + ['-Wno-error', '-w', '-I', os.path.join(REPO, 'src'), '-c', p, '-o', '@OUT@']
            jobs.append((cmd, o))
        compile_many(jobs)
        tmp = lib + '.tmp'
        r = sh(['ar', 'rcs', tmp] + objs)
        if r.returncode != 0:
            raise BuildError(r.stdout)
        os.replace(tmp, lib)
        prune(variant)
    return lib


def ensure_portable_so():
    """librx_portable.so: the generic C++ fallback build, only pv_* exported (C17)."""
    lib = ensure_lib('portable')
    d = variant_dir('portable')
    key = sha(open(os.path.join(VERIF, 'harness', 'portable_shim.cpp'), 'rb').read())[:10]
    so = os.path.join(d, 'librx_portable-%s.so' % key)
    if os.path.exists(so):
        return so
    with Lock('portable-so'):
        if os.path.exists(so):
            return so
        objs = sorted(glob.glob(os.path.join(d, 'obj', '*.o')))
        cmd = ['g++', '-shared', '-o', so + '.tmp', '-Wl,-Bsymbolic', '-Wl,--wrap=_Z11fillAes4Rx4ILb0EEvPvmS0_', '-Wl,--wrap=_Z11fillAes4Rx4ILb1EEvPvmS0_'] + objs + ['-lpthread']
        r = sh(cmd)
        if r.returncode != 0:
            raise BuildError('portable .so link failed:\n' + r.stdout[-4000:])
        os.replace(so + '.tmp', so)
    return so


def ensure_cross_blob(arch):
    """Assembles the hand-written JIT runtime of another architecture with clang, links it flat at address 0 with lld and wraps the
    bytes into a host object whose symbols sit at the original offsets (C19: a64, C20: rv64)."""
    cfg = {'a64': dict(src='jit_compiler_a64_static.S', target=['--target=aarch64-linux-gnu', '-march=armv8-a+crypto'], emul='aarch64linux'),
           'rv64': dict(src='jit_compiler_rv64_static.S', target=['--target=riscv64-linux-gnu', '-march=rv64gc', '-mno-relax'], emul='elf64lriscv')}[arch]
    d = variant_dir('cross')
    obj = os.path.join(d, arch + '_blob.o')
    if os.path.exists(obj):
        return obj
    with Lock('cross-' + arch):
        if os.path.exists(obj):
            return obj
        os.makedirs(d, exist_ok=True)
        base = os.path.join(d, arch)
        for cmd in (['clang'] + cfg['target'] + ['-c', os.path.join(REPO, 'src', cfg['src']), '-I', os.path.join(REPO, 'src'), '-o', base + '.target.o'],
                    ['ld.lld', '-m', cfg['emul'], '-Ttext=0', '-e', '0', base + '.target.o', '-o', base + '.elf'],
                    ['llvm-objcopy', '-O', 'binary', '--only-section=.text', base + '.elf', base + '.bin']):
            r = sh(cmd)
            if r.returncode != 0:
                raise BuildError('cross blob %s: %s\n%s' % (arch, ' '.join(cmd), r.stdout[-3000:]))
        r = sh(['llvm-nm', base + '.elf'])
        syms = []
        for line in r.stdout.splitlines():
            parts = line.split()
            if len(parts) == 3 and parts[1] in 'TtDdRr' and re.match(r'^[A-Za-z_][A-Za-z0-9_]*$', parts[2]):
                syms.append((parts[2], int(parts[0], 16)))
        asm = ['.section .rodata', '.balign 4096', '.globl %s_blob_begin' % arch, '%s_blob_begin:' % arch, '.incbin "%s.bin"' % base,
               '.globl %s_blob_end' % arch, '%s_blob_end:' % arch]
        seen = set()
        for name, off in syms:
            if name in seen:
                continue
            seen.add(name)
            asm += ['.globl %s' % name, '.set %s, %s_blob_begin + %d' % (name, arch, off)]
        asm.append('.section .note.GNU-stack,"",@progbits')
        open(base + '_blob.S', 'w').write('\n'.join(asm) + '\n')
        r = sh(['gcc', '-c', base + '_blob.S', '-o', obj + '.tmp'])
        if r.returncode != 0:
            raise BuildError('cross blob wrap failed:\n' + r.stdout[-3000:])
        os.replace(obj + '.tmp', obj)
        prune('cross')
    return obj


def verif_headers_hash():
    h = hashlib.sha256()
    for sub in ('harness', 'gen', 'model', 'interpose', 'emu'):
        for f in sorted(glob.glob(os.path.join(VERIF, sub, '*.h*'))) + sorted(glob.glob(os.path.join(VERIF, sub, '*.inc'))):
            h.update(f.encode())
            h.update(open(f, 'rb').read())
    return h.hexdigest()


def ensure_model():
    """The reference model library: independent of /repo; keyed by its own content."""
    srcs = sorted(glob.glob(os.path.join(VERIF, 'model', '*.cpp')))
    key = sha(*[open(s, 'rb').read() for s in srcs], verif_headers_hash())[:16]
    d = os.path.join(BUILD, 'model-' + key)
    lib = os.path.join(d, 'libmodel.a')
    if os.path.exists(lib):
        return lib
    with Lock('model'):
        if os.path.exists(lib):
            return lib
        os.makedirs(d, exist_ok=True)
        jobs, objs = [], []
        for s in srcs:
            o = os.path.join(d, os.path.basename(s) + '.o')
            objs.append(o)
            jobs.append((['g++', '-std=gnu++17', '-O2', '-g', '-frounding-math', '-fno-fast-math', '-ffp-contract=off',
                          '-fPIC', '-Wall', '-Wno-unused-function',
                          '-I', os.path.join(VERIF, 'model'), '-c', s, '-o', '@OUT@'], o))
        compile_many(jobs)
        tmp = lib + '.tmp'
        r = sh(['ar', 'rcs', tmp] + objs)
        if r.returncode != 0:
            raise BuildError(r.stdout)
        os.replace(tmp, lib)
        for old in sorted(glob.glob(os.path.join(BUILD, 'model-*')), key=os.path.getmtime, reverse=True)[2:]:
            shutil.rmtree(old, ignore_errors=True)
    return lib


def ensure_harness(spec):
    """spec: dict(name, variant, srcs=[...relative to VERIF], cflags, ldflags, model=bool, repo_lib=bool)."""
    variant = spec.get('variant', 'rel')
    v = VARIANTS[variant]
    srcs = [os.path.join(VERIF, s) for s in spec['srcs']]
    cflags = spec.get('cflags', [])
    ldflags = spec.get('ldflags', [])
    key = sha(*[open(s, 'rb').read() for s in srcs], verif_headers_hash(), cflags, ldflags, variant)[:12]
    d = variant_dir(variant)
    exe = os.path.join(d, '%s-%s' % (spec['name'], key))
    if os.path.exists(exe):
        return exe
    libs = []
    if spec.get('repo_lib', True):
        libs.append(ensure_lib(variant))
    if spec.get('model', False):
        libs.append(ensure_model())
    extra_objs = [f(sys.modules[__name__]) for f in spec.get('extra_objs', [])]
    with Lock('h-' + spec['name'] + variant):
        if os.path.exists(exe):
            return exe
        os.makedirs(d, exist_ok=True)
        for old in glob.glob(os.path.join(d, spec['name'] + '-*')):
            try:
                os.remove(old)
            except OSError:
                pass
        jobs, objs = [], []
        san = [f for f in v['flags'] if f.startswith('-fsanitize') or f.startswith('-fno-sanitize') or f == '-fno-omit-frame-pointer']
        hflags = spec.get('hflags', ['-O2', '-g'])
        for s in srcs:
            o = exe + '.' + os.path.basename(s) + '.o'
            objs.append(o)
            cmd = [v['cxx'], '-std=gnu++17'] + hflags + ['-maes', '-fPIC', '-w'] + san + cflags + [
                '-I', os.path.join(REPO, 'src'), '-I', VERIF, '-I', os.path.join(VERIF, 'model'),
                '-c', s, '-o', '@OUT@']
            jobs.append((cmd, o))
        compile_many(jobs)
        tmp = exe + '.tmp'
        san_link = [f.replace('fuzzer-no-link', 'fuzzer') for f in san if f.startswith('-fsanitize')]
        cmd = [v['cxx']] + san_link + ['-o', tmp] + objs + extra_objs + ldflags + libs + ['-lrapidcheck', '-lpthread', '-ldl']
        r = sh(cmd)
        if r.returncode != 0:
            raise BuildError('LINK FAILED: %s\n%s' % (' '.join(cmd), r.stdout[-6000:]))
        os.replace(tmp, exe)
        for o in objs:
            os.remove(o)
    return exe


# ------------------------------------------------------------------------------------------------
# running
# ------------------------------------------------------------------------------------------------
def worker_seed(seed, prop, i):
    return int(sha(seed, prop, i)[:15], 16)


def load_known():
    out = []
    p = os.path.join(VERIF, 'known_findings.jsonl')
    if os.path.exists(p):
        for line in open(p):
            line = line.strip()
            if line:
                out.append(json.loads(line))
    return out


def read_kv(path):
    kv = {}
    try:
        for line in open(path, errors='replace'):
            if '=' in line:
                k, v = line.rstrip('\n').split('=', 1)
                kv[k] = v
    except OSError:
        pass
    return kv


def matches_known(prop, replay_path):
    """A known finding matches when every key of its signature equals the value in the minimal replay case."""
    kv = read_kv(replay_path)
    for k in load_known():
        if k.get('property') != prop or k.get('status') != 'known':
            continue
        sig = k.get('signature', {})
        if sig and all(kv.get(a) == str(b) for a, b in sig.items()):
            return k
    return None


def run_workers(exe, prop, tier, seed, plan, nworkers, env_extra=None, timeout=None, extra_args=None):
    """Start nworkers processes; returns list of (rc, statsdict|None, log, current_case_path)."""
    tmpd = os.path.join(BUILD, 'run', '%s-%d' % (prop, os.getpid()))
    shutil.rmtree(tmpd, ignore_errors=True)
    os.makedirs(tmpd)
    os.makedirs(os.path.join(VERIF, 'replay'), exist_ok=True)
    procs = []
    for i in range(nworkers):
        out = os.path.join(tmpd, 'w%d.json' % i)
        log = open(os.path.join(tmpd, 'w%d.log' % i), 'w')
        cmd = [exe, '--prop', prop, '--out', out, '--worker', str(i), '--nworkers', str(nworkers),
               '--seed', str(worker_seed(seed, prop, i)), '--tier', tier, '--plan', plan,
               '--replay-dir', os.path.join(VERIF, 'replay')] + (extra_args or [])
        env = dict(os.environ)
        env.setdefault('ASAN_OPTIONS', 'detect_leaks=0:abort_on_error=1:allocator_may_return_null=1')
        env.setdefault('TSAN_OPTIONS', 'halt_on_error=0:report_signal_unsafe=0')
        if env_extra:
            env.update(env_extra)
        p = subprocess.Popen(cmd, stdout=log, stderr=subprocess.STDOUT, env=env, cwd=VERIF)
        procs.append((p, out, log))
    results = []
    deadline = time.time() + (timeout or 6 * 3600)
    for p, out, log in procs:
        try:
            rc = p.wait(timeout=max(1, deadline - time.time()))
        except subprocess.TimeoutExpired:
            p.kill()
            p.wait()
            rc = -999
        log.close()
        stats = None
        if os.path.exists(out):
            try:
                stats = json.load(open(out))
            except Exception as e:
                stats = None
        results.append((rc, stats, open(log.name, errors='replace').read()[-8000:], out + '.current'))
    return results, tmpd


def run_fuzz_stage(exe, prop, tier, seed, stage):
    """Second engine: coverage-guided libFuzzer campaign with the semantic oracle inside the target. Returns (stats list, failures)."""
    name = stage['name']
    nworkers = stage.get('workers', {}).get(tier, JOBS)
    runs = max(1, stage['runs'][tier] // nworkers)
    tmpd = os.path.join(BUILD, 'run', '%s-%s-%d' % (prop, name, os.getpid()))
    shutil.rmtree(tmpd, ignore_errors=True)
    os.makedirs(tmpd)
    os.makedirs(os.path.join(VERIF, 'replay'), exist_ok=True)
    seed_corpus = os.path.join(VERIF, 'fuzz', 'corpus', stage['target'])
    procs = []
    for i in range(nworkers):
        corpus = os.path.join(tmpd, 'corpus%d' % i)
        os.makedirs(corpus)
        out = os.path.join(tmpd, 'w%d.json' % i)
        prefix = os.path.join(VERIF, 'replay', '%s-fuzz-%s-%d-w%d-' % (prop, stage['target'], seed, i))
        for old in glob.glob(prefix + '*'):
            os.remove(old)
        cmd = [exe, '-runs=%d' % runs, '-seed=%d' % (worker_seed(seed, prop + name, i) % 2000000000 + 1), '-max_len=%d' % stage.get('max_len', 4096),
               '-print_final_stats=1', '-artifact_prefix=' + prefix, '-entropic=0', '-timeout=120', '-rss_limit_mb=8000', corpus]
        if os.path.isdir(seed_corpus):
            cmd.append(seed_corpus)
        env = dict(os.environ)
        env['ASAN_OPTIONS'] = 'detect_leaks=0:abort_on_error=0:allocator_may_return_null=1'
        env['FZ_OUT'] = out
        env['FZ_REPLAY_DIR'] = os.path.join(VERIF, 'replay')
        log = open(os.path.join(tmpd, 'w%d.log' % i), 'w')
        procs.append((subprocess.Popen(cmd, stdout=log, stderr=subprocess.STDOUT, env=env, cwd=VERIF), out, log, prefix))
    stats, fails = [], []
    total_exec = 0
    for p, out, log, prefix in procs:
        rc = p.wait()
        log.close()
        txt = open(log.name, errors='replace').read()
        m = re.search(r'stat::number_of_executed_units:\s*(\d+)', txt)
        if m:
            total_exec += int(m.group(1))
        st = None
        if os.path.exists(out):
            try:
                st = json.load(open(out))
            except Exception:
                st = None
        stats.append(st)
        arts = [a for a in glob.glob(prefix + '*') if os.path.basename(a)[len(os.path.basename(prefix)):].startswith(('crash-', 'leak-'))]
        for a in arts:
            why = re.findall(r'FUZZ-VIOLATION: (.*)', txt)
            fails.append({'replay': a, 'why': '[fuzz:%s] %s' % (stage['target'], (why[-1] if why else 'crash / sanitizer report: ' + txt[-400:]))[:1500], 'crash': True, 'fuzz': True})
        if rc != 0 and not arts:
            # slow-unit / oom / timeout artifacts are load noise, not violations
            pass
    shutil.rmtree(tmpd, ignore_errors=True)
    return stats, fails, total_exec


def replay_fuzz(exe, path, timeout=300):
    env = dict(os.environ)
    env['ASAN_OPTIONS'] = 'detect_leaks=0:abort_on_error=0'
    try:
        r = subprocess.run([exe, path], stdout=subprocess.PIPE, stderr=subprocess.STDOUT, text=True, env=env, cwd=VERIF, timeout=timeout, errors='replace')
        return r.returncode, r.stdout[-3000:]
    except subprocess.TimeoutExpired:
        return -999, 'timeout'


def replay_once(exe, prop, path, env_extra=None, timeout=600):
    env = dict(os.environ)
    env.setdefault('ASAN_OPTIONS', 'detect_leaks=0:abort_on_error=1:allocator_may_return_null=1')
    env.setdefault('TSAN_OPTIONS', 'halt_on_error=0:report_signal_unsafe=0')
    if env_extra:
        env.update(env_extra)
    cmd = [exe, '--prop', prop, '--replay', path]
    try:
        kv0 = read_kv(path)
    except Exception:
        kv0 = {}
    if kv0.get('sub') == 'setup-crash':
        # the process died outside a generated case: re-run that worker's share of the stage plan (set-up included)
        out = os.path.join(BUILD, 'run', 'setup-replay-%d.json' % os.getpid())
        os.makedirs(os.path.dirname(out), exist_ok=True)
        cmd = [exe, '--prop', prop, '--out', out, '--worker', kv0.get('worker', '0'), '--nworkers', str(JOBS), '--seed', '1', '--tier', 'quick',
               '--plan', kv0.get('plan', ''), '--replay-dir', os.path.join(VERIF, 'replay')]
    try:
        r = subprocess.run(cmd, stdout=subprocess.PIPE, stderr=subprocess.STDOUT,
                           text=True, env=env, cwd=VERIF, timeout=timeout, errors='replace')
        return r.returncode, r.stdout[-4000:]
    except subprocess.TimeoutExpired:
        return -999, 'timeout'


def minimize_crash(exe, prop, path, env_extra, budget=90):
    """Driver-side delta debugging for cases that kill the process (no in-process shrinking possible):
    instruction words of a program case are replaced by the NOP-equivalent word while the replay still dies."""
    kv = read_kv(path)
    if 'ncmds' in kv:
        return minimize_crash_history(exe, prop, path, env_extra, budget)
    if 'prog' not in kv or 'nopword' not in kv:
        return path
    try:
        prog = bytearray(bytes.fromhex(kv['prog']))
        nop = bytes.fromhex(kv['nopword'])
    except ValueError:
        return path
    lines = [l for l in open(path, errors='replace').read().split('\n') if l and not l.startswith('prog=')]
    tmp = path + '.min'
    used = [0]

    t0 = time.time()

    def fails(p):
        # replay budget and a wall-clock budget: minimising a hang costs one watchdog period per failing candidate
        if used[0] >= budget or time.time() - t0 > 150:
            return False
        used[0] += 1
        open(tmp, 'w').write('\n'.join(lines) + '\nprog=' + bytes(p).hex() + '\n')
        rc, _ = replay_once(exe, prop, tmp, env_extra, timeout=150)
        return rc != 0
    n = (len(prog) - 128) // 8
    span = n // 2
    while span >= 1 and used[0] < budget:
        for s0 in range(0, n, span):
            cand = bytearray(prog)
            changed = False
            for i in range(s0, min(n, s0 + span)):
                if cand[128 + 8 * i:136 + 8 * i] != nop:
                    cand[128 + 8 * i:136 + 8 * i] = nop
                    changed = True
            if changed and fails(cand):
                prog = cand
        span //= 2
    open(tmp, 'w').write('\n'.join(lines) + '\nprog=' + bytes(prog).hex() + '\n')
    rc, _ = replay_once(exe, prop, tmp, env_extra, timeout=150)
    if rc != 0:
        os.replace(tmp, path)
    else:
        os.remove(tmp)
    return path


def minimize_crash_history(exe, prop, path, env_extra, budget=90):
    """ddmin over the command list of an API-history case (operands resolve modulo live objects, so every sub-sequence is valid)."""
    lines = [l for l in open(path, errors='replace').read().split('\n') if l]
    head = [l for l in lines if not re.match(r'cmd\d+=', l) and not l.startswith('ncmds=')]
    cmds = [l.split('=', 1)[1] for l in sorted((l for l in lines if re.match(r'cmd\d+=', l)), key=lambda l: int(l[3:l.index('=')]))]
    tmp = path + '.min'
    used = [0]

    def write(cs, dst):
        open(dst, 'w').write('\n'.join(head + ['ncmds=0x%x' % len(cs)] + ['cmd%d=%s' % (i, c) for i, c in enumerate(cs)]) + '\n')

    def fails(cs):
        if used[0] >= budget:
            return False
        used[0] += 1
        write(cs, tmp)
        rc, _ = replay_once(exe, prop, tmp, env_extra, timeout=300)
        return rc != 0
    span = max(1, len(cmds) // 2)
    while span >= 1 and used[0] < budget:
        s0 = 0
        while s0 < len(cmds) and used[0] < budget:
            cand = cmds[:s0] + cmds[s0 + span:]
            if len(cand) < len(cmds) and fails(cand):
                cmds = cand
            else:
                s0 += span
        span //= 2
    write(cmds, tmp)
    rc, _ = replay_once(exe, prop, tmp, env_extra, timeout=300)
    if rc != 0:
        os.replace(tmp, path)
    else:
        os.remove(tmp)
    return path


def merge_stats(all_stats):
    ev = 0
    labels = {}
    nt = set()
    nt_extra = 0
    samples = []
    subs = {}
    for s in all_stats:
        if not s:
            continue
        ev += s.get('evaluations', 0)
        for k, v in s.get('labels', {}).items():
            labels[k] = max(labels.get(k, 0), v) if k.startswith('max:') else labels.get(k, 0) + v
        for h in s.get('nontrivial_hashes', []):
            nt.add(h)
        nt_extra += s.get('nontrivial_overflow', 0)
        for x in s.get('samples', []):
            if len(samples) < 12:
                samples.append(x)
        for k, v in s.get('subchecks', {}).items():
            d = subs.setdefault(k, {'cases': 0, 'ok': True})
            d['cases'] += v.get('cases', 0)
            d['ok'] = d['ok'] and v.get('ok', True)
    return ev, labels, nt, samples, subs


def write_evidence(prop, tier, seed, level, coverage, assumptions, wall, violations):
    evdir = os.environ.get('VERIF_EVIDENCE_DIR') or (os.path.join(BUILD, 'run', 'evidence-partial') if os.environ.get('VERIF_ONLY_STAGE') else os.path.join(VERIF, 'evidence'))   # override: mutation/sensitivity runs only (tools/sens.sh)
    os.makedirs(evdir, exist_ok=True)
    ev = dict(property_id=prop, tier=tier, seed=seed, level=level, coverage=coverage, assumptions=assumptions,
              wall_s=round(wall, 2), violations=violations)
    tmp = os.path.join(evdir, prop + '.json.tmp')
    json.dump(ev, open(tmp, 'w'), indent=1)
    os.replace(tmp, os.path.join(evdir, prop + '.json'))


def run_check(prop, tier, seed):
    import checks
    spec = checks.CHECKS[prop]
    t0 = time.time()
    if 'custom' in spec:
        return spec['custom'](sys.modules[__name__], prop, tier, seed)
    if 'pre' in spec:
        spec['pre']()
    violations = []      # (replay path, description)
    fuzz_execs = {}
    known_hits = []
    all_stats = []
    notes = []
    for stage in spec['stages']:
        if tier not in stage.get('tiers', ('quick', 'thorough')):
            continue
        if os.environ.get('VERIF_ONLY_STAGE') and stage['name'] not in os.environ['VERIF_ONLY_STAGE'].split(','):
            continue    # diagnostics / sensitivity runs only (tools/sens.sh); never set by the registered commands
        try:
            exe = ensure_harness(stage['harness'])
        except BuildError as e:
            print('BUILD-ERROR for %s:\n%s' % (prop, e))
            # a tree that does not build cannot be checked: report as inconclusive hard error
            write_evidence(prop, tier, seed, spec['level'],
                           dict(evaluations=0, distinct_nontrivial=0, rule=spec['rule'], samples=[], build_error=str(e)[-2000:]),
                           spec['assumptions'], time.time() - t0, 0)
            return 2
        if callable(stage.get('env')):
            try:
                stage = dict(stage, env=stage['env'](sys.modules[__name__]))
            except BuildError as e:
                print('BUILD-ERROR for %s:\n%s' % (prop, e))
                return 2
        if stage.get('kind') == 'fuzz':
            fstats, ffails, fexec = run_fuzz_stage(exe, prop, tier, seed, stage)
            all_stats.extend(fstats)
            fuzz_execs[stage['target']] = fuzz_execs.get(stage['target'], 0) + fexec
            for f in ffails:
                if len(violations) >= 3:
                    break
                confirmed = sum(1 for _ in range(3) if replay_fuzz(exe, f['replay'])[0] != 0)
                if confirmed == 3:
                    violations.append((f['replay'], f['why']))
                else:
                    notes.append('fuzz artifact did not reproduce (%d/3): %s' % (confirmed, f['replay']))
            continue
        plan = stage['plan'][tier]
        nworkers = stage.get('workers', {}).get(tier, JOBS)
        stage_crash_confirmed = [False]
        results, tmpd = run_workers(exe, prop, tier, seed, plan, nworkers, stage.get('env'), stage.get('timeout', {}).get(tier),
                                    stage.get('args'))
        for i, (rc, stats, log, cur) in enumerate(results):
            all_stats.append(stats)
            fails = list((stats or {}).get('failures', []))
            if rc != 0 and not fails:
                # died without a recorded failure: crash / sanitizer abort / hang
                desc = 'worker %d exit %s' % (i, rc)
                if os.path.exists(cur):
                    dst = os.path.join(VERIF, 'replay', '%s-crash-%d-w%d.txt' % (prop, seed, i))
                    shutil.copy(cur, dst)
                    fails.append({'replay': dst, 'why': desc + ' (case in flight)', 'crash': True})
                else:
                    # died outside any generated case (harness set-up, e.g. a sanitizer report while the oracle objects are built):
                    # the replay file records the stage plan; replaying it re-runs worker 0 of that plan
                    notes.append(desc + ' without case in flight; log tail: ' + log[-1500:])
                    dst = os.path.join(VERIF, 'replay', '%s-setup-crash-%d-w%d.txt' % (prop, seed, i))
                    open(dst, 'w').write('sub=setup-crash\nstage=%s\nplan=%s\nworker=%d\nlog=%s\n' % (stage['name'], plan, i, log[-3000:].replace('\n', ' | ')))
                    fails.append({'replay': dst, 'why': desc + ' outside a generated case (harness set-up); log: ' + log[-600:], 'crash': True, 'setup': True})
            for f in fails:
                if f.get('crash') and not f.get('setup') and stage_crash_confirmed[0]:
                    # a second worker died the same way (typically the same hang): one confirmed crash per stage is replayed and minimised
                    notes.append('further crash in stage %s not replayed (one already confirmed): %s %s' % (stage['name'], f.get('replay', ''), f['why'][:200]))
                    continue
                if len(violations) + len(known_hits) >= 3:
                    notes.append('further failure not replayed (3 already confirmed): %s' % f.get('why', '')[:300])
                    continue
                path = f.get('replay', '')
                if not path:
                    violations.append(('', f['why']))
                    continue
                # confirm through the plain replay path, three times
                confirmed = 0
                outs = []
                nrep = stage.get('replays', 3)
                for _ in range(nrep):
                    rrc, rout = replay_once(exe, prop, path, stage.get('env'), timeout=stage.get('replay_timeout', 600))
                    outs.append(rout)
                    if rrc != 0:
                        confirmed += 1
                if confirmed == nrep:
                    if f.get('crash'):
                        stage_crash_confirmed[0] = True
                    if f.get('crash') and not any(v[0] for v in violations):
                        minimize_crash(exe, prop, path, stage.get('env'))
                    k = matches_known(prop, path)
                    if k:
                        known_hits.append(k)
                    else:
                        violations.append((path, f['why']))
                else:
                    notes.append('unconfirmed failure (%d/%d replays failed): %s %s' % (confirmed, nrep, path, f['why']))
                    if confirmed > 0:
                        violations.append((path, 'flaky (%d/%d): %s' % (confirmed, nrep, f['why'])))
        shutil.rmtree(tmpd, ignore_errors=True)
    ev, labels, nt, samples, subs = merge_stats(all_stats)
    selfcheck_problems = []
    if 'post' in spec:
        try:
            pr = spec['post'](sys.modules[__name__], prop, tier)
            labels[pr['label']] = pr['count']
            selfcheck_problems = pr['problems']
        except Exception as e:
            selfcheck_problems = ['post-check raised %r' % (e,)]
        for sp in selfcheck_problems:
            notes.append('harness self-check: ' + sp)
    for k in load_known():
        if k.get('property') == prop and k.get('status') == 'known' and k.get('always_report'):
            known_hits.append(k)
    seen = set()
    for k in known_hits:
        if k['what'] not in seen:
            seen.add(k['what'])
            print('KNOWN-FINDING: property=%s %s' % (prop, k['what']))
    distinct = len(nt) + labels.get('exhaustive-distinct', 0)
    for t, n in fuzz_execs.items():
        labels['libfuzzer-executions:' + t] = n
    cov = dict(evaluations=ev, distinct_nontrivial=distinct, rule=spec['rule'], samples=samples, labels=labels,
               subchecks=subs, notes=notes[:10])
    if spec.get('exhaustive', {}).get(tier):
        cov['exhaustive'] = True
    write_evidence(prop, tier, seed, spec['level'], cov, spec['assumptions'], time.time() - t0, len(violations))
    if violations:
        for path, why in violations[:5]:
            print('VIOLATION property=%s replay=%s' % (prop, path))
            print('  reason: %s' % why[:1500])
        return 1
    if selfcheck_problems:
        print('INCONCLUSIVE property=%s: harness self-check failed (oracle not trusted): %s' % (prop, selfcheck_problems[0]))
        return 2
    under = spec.get('min_nontrivial', {}).get(tier, 2)
    if distinct < under or ev == 0:
        print('INCONCLUSIVE property=%s: only %d non-trivial cases (%d evaluations); see evidence notes' % (prop, distinct, ev))
        for n in notes[:5]:
            print('  note:', n[:2000])
        return 2
    print('OK property=%s tier=%s evaluations=%d distinct_nontrivial=%d wall=%.1fs' % (prop, tier, ev, distinct, time.time() - t0))
    return 0


def replay(prop, path):
    import checks
    spec = checks.CHECKS[prop]
    if '-fuzz-' in os.path.basename(path):
        for st in spec.get('stages', []):
            if st.get('kind') == 'fuzz' and ('-fuzz-%s-' % st['target']) in os.path.basename(path):
                exe = ensure_harness(st['harness'])
                rc, out = replay_fuzz(exe, path)
                print(out)
                if rc != 0:
                    print('VIOLATION property=%s replay=%s' % (prop, path))
                    return 1
                print('replay passes')
                return 0
    kv = read_kv(path)
    stage = None
    for st in spec.get('stages', []):
        if st.get('kind') == 'fuzz':
            continue
        if kv.get('stage') in (None, st.get('name')):
            stage = st
            break
    if stage is None:
        stage = spec['stages'][0]
    exe = ensure_harness(stage['harness'])
    rc, out = replay_once(exe, prop, path, stage.get('env'))
    print(out)
    if rc != 0:
        print('VIOLATION property=%s replay=%s' % (prop, path))
        return 1
    print('replay passes')
    return 0


def setup():
    import checks
    t0 = time.time()
    ensure_model()
    rc = 0
    todo = []
    for prop, spec in checks.CHECKS.items():
        for st in spec.get('stages', []):
            todo.append(st['harness'])
    # libraries first (serial per variant, parallel inside), then harnesses in parallel
    for vname in sorted(set(h.get('variant', 'rel') for h in todo if h.get('repo_lib', True))):
        ensure_lib(vname)
    seen = set()
    uniq = []
    for h in todo:
        k = (h['name'], h.get('variant', 'rel'))
        if k not in seen:
            seen.add(k)
            uniq.append(h)
    global JOBS
    with ThreadPoolExecutor(8) as ex:
        for h, r in zip(uniq, ex.map(lambda h: _try(ensure_harness, h), uniq)):
            if isinstance(r, Exception):
                print('setup: build of %s failed:\n%s' % (h['name'], r))
                rc = 1
    if hasattr(checks, 'selftest'):
        rc |= checks.selftest(sys.modules[__name__])
    print('setup done in %.1fs rc=%d' % (time.time() - t0, rc))
    return rc


def _try(f, *a):
    try:
        return f(*a)
    except Exception as e:
        return e


def main():
    if len(sys.argv) < 2:
        print(__doc__)
        return 2
    cmd = sys.argv[1]
    tier = os.environ.get('VERIF_TIER', 'quick')
    if '--tier' in sys.argv:
        tier = sys.argv[sys.argv.index('--tier') + 1]
    try:
        seed = int(os.environ.get('VERIF_SEED', '1'))
    except ValueError:
        seed = 1
    if cmd == 'setup':
        return setup()
    if cmd == 'run':
        return run_check(sys.argv[2], tier, seed)
    if cmd == 'replay':
        return replay(sys.argv[2], sys.argv[3])
    if cmd == 'build':
        import checks
        for st in checks.CHECKS[sys.argv[2]]['stages']:
            print(ensure_harness(st['harness']))
        return 0
    print(__doc__)
    return 2


if __name__ == '__main__':
    sys.exit(main())
