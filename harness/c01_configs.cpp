// C01 - all VM configurations compute the same hash.
// n-version differential: 12 VM classes {interpreter, JIT, JIT+SECURE} x {soft, hard AES} x {light, fast} over caches prepared by
// {default, JIT} x {Argon2 ref, SSSE3, AVX2} and datasets initialised by the compiled and by the interpreted initialiser.
#include "harness/vh.hpp"
#include "gen/gens.hpp"
#include "randomx.h"
#include <thread>
#include <array>

using Bytes = std::vector<uint8_t>;

struct CCase {
	Bytes key; std::vector<Bytes> inputs; uint64_t partSeed; uint32_t sweep = 0;   // sweep: number of additional seed-derived inputs hashed by six cheap-to-compare classes only
	std::string dump() const { vh::KVWriter w; w("key", vh::hex(key.data(), key.size()))("partSeed", partSeed)("sweep", (uint64_t)sweep)("n", (uint64_t)inputs.size()); for (size_t i = 0; i < inputs.size(); ++i) w("input" + std::to_string(i), vh::hex(inputs[i].data(), inputs[i].size())); return w.str(); }
	static CCase parse(const vh::KV& kv) { CCase c; c.key = vh::unhex(vh::gets(kv, "key")); c.partSeed = vh::getu(kv, "partSeed"); c.sweep = (uint32_t)vh::getu(kv, "sweep", 0); size_t n = vh::getu(kv, "n"); for (size_t i = 0; i < n; ++i) c.inputs.push_back(vh::unhex(vh::gets(kv, "input" + std::to_string(i)))); return c; }
};

static std::string flagName(int f) {
	std::string s = (f & RANDOMX_FLAG_JIT) ? ((f & RANDOMX_FLAG_SECURE) ? "jit+secure" : "jit") : "interp";
	s += (f & RANDOMX_FLAG_HARD_AES) ? ",hardaes" : ",softaes"; s += (f & RANDOMX_FLAG_FULL_MEM) ? ",fast" : ",light"; s += (f & RANDOMX_FLAG_V2) ? ",v2" : ",v1";
	return s;
}

static void initDatasetPartitioned(randomx_dataset* ds, randomx_cache* cache, uint64_t seed) {
	const uint64_t N = randomx_dataset_item_count();
	vh::XorShift x(seed);
	std::vector<uint64_t> cuts = {0, N};
	for (int i = 0; i < 40; ++i) cuts.push_back(x.next() % N);
	cuts.push_back(N - 1 - x.next() % 3); cuts.push_back(1 + x.next() % 3);
	std::sort(cuts.begin(), cuts.end());
	std::vector<std::thread> th;
	for (int t = 0; t < 16; ++t) th.emplace_back([&, t] { for (size_t i = t; i + 1 < cuts.size(); i += 16) if (cuts[i + 1] > cuts[i]) randomx_init_dataset(ds, cache, cuts[i], cuts[i + 1] - cuts[i]); });
	for (auto& t : th) t.join();
}

static std::string body(const CCase& c) {
	static const int argon[3] = {0, RANDOMX_FLAG_ARGON2_SSSE3, RANDOMX_FLAG_ARGON2_AVX2};
	static const char* argonName[3] = {"ref", "ssse3", "avx2"};
	// caches: [jit][argon]
	randomx_cache* cache[2][3] = {};
	for (int j = 0; j < 2; ++j) for (int a = 0; a < 3; ++a) {
		cache[j][a] = randomx_alloc_cache((randomx_flags)((j ? RANDOMX_FLAG_JIT : 0) | argon[a]));
		if (!cache[j][a]) { vh::label(std::string("cache-variant-unavailable:") + argonName[a]); continue; }
		randomx_init_cache(cache[j][a], c.key.data(), c.key.size());
	}
	if (!cache[0][0] || !cache[1][0]) return "harness: default caches could not be allocated";
	// datasets: [0] interpreted initialiser over a generated partition, [1] compiled initialiser (cache variants rotate by seed)
	randomx_dataset* ds[2] = {randomx_alloc_dataset(RANDOMX_FLAG_DEFAULT), randomx_alloc_dataset(RANDOMX_FLAG_DEFAULT)};
	if (!ds[0] || !ds[1]) return "harness: dataset allocation failed";
	int a0 = (int)(c.partSeed % 3), a1 = (int)((c.partSeed / 3) % 3);
	initDatasetPartitioned(ds[0], cache[0][a0] ? cache[0][a0] : cache[0][0], c.partSeed);
	initDatasetPartitioned(ds[1], cache[1][a1] ? cache[1][a1] : cache[1][0], c.partSeed ^ 0x5555);
	std::string err;
	uint64_t hashes = 0;
	for (int v2 = 0; v2 < 2 && err.empty(); ++v2) {
		// reference configuration: light interpreter, software AES, default cache with reference Argon2
		std::vector<std::array<uint8_t, 32>> ref(c.inputs.size());
		{
			randomx_vm* vm = randomx_create_vm((randomx_flags)(v2 ? RANDOMX_FLAG_V2 : 0), cache[0][0], nullptr);
			for (size_t i = 0; i < c.inputs.size(); ++i) randomx_calculate_hash(vm, c.inputs[i].data(), c.inputs[i].size(), ref[i].data());
			randomx_destroy_vm(vm); hashes += c.inputs.size();
		}
		struct Cfg { int flags; randomx_cache* cache; randomx_dataset* ds; std::string name; };
		std::vector<Cfg> cfgs;
		for (int eng = 0; eng < 3; ++eng) for (int aes = 0; aes < 2; ++aes) for (int mem = 0; mem < 2; ++mem) {
			int f = (eng >= 1 ? RANDOMX_FLAG_JIT : 0) | (eng == 2 ? RANDOMX_FLAG_SECURE : 0) | (aes ? RANDOMX_FLAG_HARD_AES : 0) | (mem ? RANDOMX_FLAG_FULL_MEM : 0) | (v2 ? RANDOMX_FLAG_V2 : 0);
			if (mem) for (int d = 0; d < 2; ++d) cfgs.push_back({f, nullptr, ds[d], flagName(f) + (d ? ",dataset:compiled-init" : ",dataset:interpreted-init")});
			else cfgs.push_back({f, cache[eng ? 1 : 0][0], nullptr, flagName(f) + ",cache:" + (eng ? "jit" : "default") + "/ref"});
		}
		// light JIT VMs over every other cache variant (Argon2 implementation x cache JIT flag)
		for (int j = 0; j < 2; ++j) for (int a = 0; a < 3; ++a) if (cache[j][a] && !(a == 0)) cfgs.push_back({RANDOMX_FLAG_JIT | (v2 ? RANDOMX_FLAG_V2 : 0), cache[j][a], nullptr, flagName(RANDOMX_FLAG_JIT | (v2 ? RANDOMX_FLAG_V2 : 0)) + ",cache:" + (j ? "jit/" : "default/") + argonName[a]});
		cfgs.push_back({(v2 ? RANDOMX_FLAG_V2 : 0), cache[1][0], nullptr, flagName(v2 ? RANDOMX_FLAG_V2 : 0) + ",cache:jit/ref"});
		size_t ci = 0;
		for (auto& cfg : cfgs) {
			randomx_vm* vm = randomx_create_vm((randomx_flags)cfg.flags, cfg.cache, cfg.ds);
			if (!vm) { err = "VM creation failed for " + cfg.name; break; }
			bool slow = !(cfg.flags & RANDOMX_FLAG_JIT) && !(cfg.flags & RANDOMX_FLAG_FULL_MEM);   // light interpreter: 170 ms per hash -> half of the inputs
			bool batch = (ci++ % 3) == 1;   // every third configuration goes through the first/next/last API
			std::vector<std::array<uint8_t, 32>> got(c.inputs.size());
			std::vector<size_t> idx; for (size_t i = 0; i < c.inputs.size(); ++i) if (!slow || i % 2 == 0) idx.push_back(i);
			if (batch && idx.size() > 1) {
				randomx_calculate_hash_first(vm, c.inputs[idx[0]].data(), c.inputs[idx[0]].size());
				for (size_t k = 1; k < idx.size(); ++k) randomx_calculate_hash_next(vm, c.inputs[idx[k]].data(), c.inputs[idx[k]].size(), got[idx[k - 1]].data());
				randomx_calculate_hash_last(vm, got[idx.back()].data());
			}
			else for (size_t i : idx) randomx_calculate_hash(vm, c.inputs[i].data(), c.inputs[i].size(), got[i].data());
			randomx_destroy_vm(vm);
			hashes += idx.size();
			for (size_t i : idx) if (got[i] != ref[i]) { err = "configuration [" + cfg.name + (batch ? ",api:batch" : ",api:single") + "] gives " + vh::hex(got[i].data(), 32) + " but [interp,softaes,light,cache:default/ref] gives " + vh::hex(ref[i].data(), 32) + " for input " + std::to_string(i) + " (" + std::to_string(c.inputs[i].size()) + " bytes), key of " + std::to_string(c.key.size()) + " bytes"; break; }
			if (!err.empty()) break;
			if (!vh::st().replaying) {
				vh::label("cfg:" + cfg.name.substr(0, cfg.name.find(",v")) + cfg.name.substr(cfg.name.find(",v") + 3), idx.size());
				for (size_t i : idx) vh::nontrivial(vh::fnv(cfg.name.data(), cfg.name.size(), vh::fnv(c.key.data(), c.key.size(), vh::fnv(c.inputs[i].data(), c.inputs[i].size(), v2))));
			}
		}
	}
	// ---- sweep: many more (input, version) pairs through six classes, 8 threads with their own VMs over the shared caches/datasets.
	// A deviation that needs a particular program property (say 1 hash in 500) in one engine/mode is out of reach of the 16 tuples above.
	if (err.empty() && c.sweep) {
		std::vector<Bytes> sin(c.sweep);
		{ vh::XorShift x(c.partSeed ^ 0x53574545); for (auto& b : sin) { b.resize(1 + x.next() % 96); x.fill(b.data(), b.size()); } }
		struct SCfg { int flags; randomx_cache* cache; randomx_dataset* ds; const char* name; };
		const SCfg scfg[6] = {
			{0, cache[0][0], nullptr, "interp,softaes,light"},                                   // reference of the sweep
			{RANDOMX_FLAG_JIT, cache[1][0], nullptr, "jit,softaes,light"},
			{RANDOMX_FLAG_JIT | RANDOMX_FLAG_SECURE | RANDOMX_FLAG_HARD_AES, cache[1][0], nullptr, "jit+secure,hardaes,light"},
			{RANDOMX_FLAG_FULL_MEM, nullptr, ds[0], "interp,softaes,fast,dataset:interpreted-init"},
			{RANDOMX_FLAG_FULL_MEM | RANDOMX_FLAG_JIT | RANDOMX_FLAG_HARD_AES, nullptr, ds[1], "jit,hardaes,fast,dataset:compiled-init"},
			{RANDOMX_FLAG_FULL_MEM | RANDOMX_FLAG_JIT | RANDOMX_FLAG_SECURE, nullptr, ds[0], "jit+secure,softaes,fast,dataset:interpreted-init"}};
		const int T = 8; std::vector<std::string> terr(T); std::vector<std::thread> th;
		for (int t = 0; t < T; ++t) th.emplace_back([&, t] {
			for (int v2 = 0; v2 < 2 && terr[t].empty(); ++v2) {
				randomx_vm* vm[6];
				for (int k = 0; k < 6; ++k) { vm[k] = randomx_create_vm((randomx_flags)(scfg[k].flags | (v2 ? RANDOMX_FLAG_V2 : 0)), scfg[k].cache, scfg[k].ds); if (!vm[k]) { terr[t] = std::string("VM creation failed for ") + scfg[k].name; } }
				for (size_t i = t; i < sin.size() && terr[t].empty(); i += T) {
					std::array<uint8_t, 32> d[6];
					for (int k = 0; k < 6; ++k) randomx_calculate_hash(vm[k], sin[i].data(), sin[i].size(), d[k].data());
					for (int k = 1; k < 6; ++k) if (d[k] != d[0]) { terr[t] = std::string("configuration [") + scfg[k].name + (v2 ? ",v2" : ",v1") + "] gives " + vh::hex(d[k].data(), 32) + " but [interp,softaes,light] gives " + vh::hex(d[0].data(), 32) + " for sweep input " + vh::hex(sin[i].data(), sin[i].size()) + ", key " + vh::hex(c.key.data(), c.key.size()); break; }
				}
				for (int k = 0; k < 6; ++k) if (vm[k]) randomx_destroy_vm(vm[k]);
			}
		});
		for (auto& t : th) t.join();
		for (auto& e : terr) if (!e.empty() && err.empty()) err = e;
		if (err.empty() && !vh::st().replaying) {
			hashes += (uint64_t)sin.size() * 12; vh::label("sweep:(input,version)-pairs-through-6-classes", sin.size() * 2);
			for (size_t i = 0; i < sin.size(); ++i) for (int v2 = 0; v2 < 2; ++v2) for (int k = 1; k < 6; ++k) vh::nontrivial(vh::fnv(scfg[k].name, strlen(scfg[k].name), vh::fnv(c.key.data(), c.key.size(), vh::fnv(sin[i].data(), sin[i].size(), v2))));
		}
	}
	randomx_release_dataset(ds[0]); randomx_release_dataset(ds[1]);
	for (int j = 0; j < 2; ++j) for (int a = 0; a < 3; ++a) if (cache[j][a]) randomx_release_cache(cache[j][a]);
	if (!err.empty() || vh::st().replaying) return err;
	vh::label("hashes", hashes);
	vh::label("key-len:" + std::string(c.key.empty() ? "0" : c.key.size() <= 60 ? "1..60" : "61+"));
	for (auto& in : c.inputs) vh::label("input-len:" + vg::lenClass(in.size()));
	return "";
}

int main(int argc, char** argv) {
	using namespace rc;
	vh::registerCheck<CCase>("configs", [] {
		return gen::resize(100, gen::apply([](Bytes key, std::vector<Bytes> in, uint64_t ps) { CCase c{key, in, ps}; c.sweep = 256; return c; }, vg::genKey(), gen::container<std::vector<Bytes>>(8, vg::genInput()), gen::arbitrary<uint64_t>()));
	}, body, true, nullptr, 1);
	return vh::harnessMain(argc, argv);
}
