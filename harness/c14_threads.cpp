// C14 - concurrent hashing and dataset initialisation over shared data are race-free.
// Built with -fsanitize=thread. Generated multi-thread workloads; oracle: (i) every digest / dataset byte equals the sequential
// result, (ii) ThreadSanitizer (happens-before) reports no data race while the workload runs.
#include "harness/vh.hpp"
#include "gen/gens.hpp"
#include "randomx.h"
#include "dataset.hpp"
#include <array>
#include <atomic>
#include <map>
#include <thread>
#include <sys/mman.h>
#include <sched.h>
#include <unistd.h>
extern "C" int memfd_create(const char*, unsigned int);

using Bytes = std::vector<uint8_t>;
using Digest = std::array<uint8_t, 32>;

// ---- TSan report hook ---------------------------------------------------------------------------------------------------------
static std::atomic<int> tsanReports{0};
static char firstReport[600];
extern "C" int __tsan_get_report_data(void* report, const char** description, int* count, int* stack_count, int* mop_count, int* loc_count, int* mutex_count, int* thread_count, int* unique_tid_count, void** sleep_trace, unsigned long trace_size) __attribute__((weak));
extern "C" int __tsan_get_report_loc(void* report, unsigned long idx, const char** type, void** addr, void** start, unsigned long* size, int* tid, int* fd, int* suppressable, void** trace, unsigned long trace_size) __attribute__((weak));
extern "C" int __tsan_get_report_loc_object_type(void* report, unsigned long idx, const char** object_type) __attribute__((weak));
extern "C" int __tsan_get_report_mop(void* report, unsigned long idx, int* tid, void** addr, int* size, int* write, int* atomic, void** trace, unsigned long trace_size) __attribute__((weak));
extern "C" void __tsan_on_report(void* report) {
	if (tsanReports.fetch_add(1) == 0) {
		const char* desc = "?"; int count, sc, mc, lc, muc, tc, utc; void* sleep[1];
		if (__tsan_get_report_data) __tsan_get_report_data(report, &desc, &count, &sc, &mc, &lc, &muc, &tc, &utc, sleep, 1);
		void* addr = nullptr; int tid = 0, size = 0, write = 0, atomic = 0; void* trace[8] = {0};
		if (__tsan_get_report_mop && mc > 0) __tsan_get_report_mop(report, 0, &tid, &addr, &size, &write, &atomic, trace, 8);
		const char* ltype = "?"; void* laddr = nullptr; void* lstart = nullptr; unsigned long lsize = 0; int ltid, lfd, lsup; void* ltrace[1];
		if (__tsan_get_report_loc && lc > 0) __tsan_get_report_loc(report, 0, &ltype, &laddr, &lstart, &lsize, &ltid, &lfd, &lsup, ltrace, 1);
		snprintf(firstReport, sizeof firstReport, "%s: %s of size %d at %p (location: %s of %lu bytes at %p), pc %p", desc, write ? "write" : "read", size, addr, ltype, lsize, lstart, trace[0]);
	}
}

// ---- workload -------------------------------------------------------------------------------------------------------------------
enum TOp { T_CREATE, T_HASH, T_BATCH, T_DESTROY, T_INITDS, T_OWNCACHE, T_YIELD, T_NOPS };
struct Step { int op, a, b; };
struct WCase {
	std::vector<std::vector<Step>> threads; std::vector<Bytes> inputs; int dsJit; int fresh = 0;   // fresh: shared caches are re-created and keyed right before the threads start (no VM was ever attached)
	std::string dump() const {
		vh::KVWriter w; w("nthreads", (uint64_t)threads.size())("ninputs", (uint64_t)inputs.size())("dsJit", (uint64_t)dsJit)("fresh", (uint64_t)fresh);
		for (size_t i = 0; i < inputs.size(); ++i) w("input" + std::to_string(i), vh::hex(inputs[i].data(), inputs[i].size()));
		for (size_t t = 0; t < threads.size(); ++t) { std::string s; for (auto& k : threads[t]) s += std::to_string(k.op) + ":" + std::to_string(k.a) + ":" + std::to_string(k.b) + " "; w("thread" + std::to_string(t), s); }
		return w.str();
	}
	static WCase parse(const vh::KV& kv) {
		WCase c; c.dsJit = (int)vh::getu(kv, "dsJit"); c.fresh = (int)vh::getu(kv, "fresh", 0);
		for (size_t i = 0; i < vh::getu(kv, "ninputs"); ++i) c.inputs.push_back(vh::unhex(vh::gets(kv, "input" + std::to_string(i))));
		for (size_t t = 0; t < vh::getu(kv, "nthreads"); ++t) { std::vector<Step> v; std::stringstream ss(vh::gets(kv, "thread" + std::to_string(t))); std::string tok; while (ss >> tok) { Step k{0, 0, 0}; sscanf(tok.c_str(), "%d:%d:%d", &k.op, &k.a, &k.b); v.push_back(k); } c.threads.push_back(v); }
		return c;
	}
};

static randomx_cache* sharedCache[2];   // [0] default, [1] JIT - same key
static randomx_cache* refCache;         // same key, never visible to the worker threads: sequential expectations come from here, so that
                                        // the shared caches can be in the state 'initialised, no VM attached yet' when the threads start
static randomx_dataset sparseDs;        // sparse: only the generated ranges are ever touched
static randomx_dataset fastDs;          // shared by the fast-mode VMs: complete, read-only during the workloads. Its content is synthetic (a 64 MiB
                                        // pseudo-random chunk mapped repeatedly): the oracle is 'equals the sequential result over the same dataset',
                                        // which does not need real items, and a real 2 GiB initialisation under TSan would cost minutes per process
static const char KEY[] = "C14 shared key";
static const int VMFLAGS[] = {0, RANDOMX_FLAG_HARD_AES, RANDOMX_FLAG_JIT, RANDOMX_FLAG_JIT | RANDOMX_FLAG_HARD_AES, RANDOMX_FLAG_JIT | RANDOMX_FLAG_SECURE, RANDOMX_FLAG_JIT | RANDOMX_FLAG_SECURE | RANDOMX_FLAG_HARD_AES,
	RANDOMX_FLAG_JIT | RANDOMX_FLAG_V2, RANDOMX_FLAG_JIT | RANDOMX_FLAG_HARD_AES | RANDOMX_FLAG_V2, RANDOMX_FLAG_HARD_AES | RANDOMX_FLAG_V2,
	// fast mode: the thread's own VM reads the shared dataset
	RANDOMX_FLAG_FULL_MEM | RANDOMX_FLAG_JIT, RANDOMX_FLAG_FULL_MEM | RANDOMX_FLAG_JIT | RANDOMX_FLAG_HARD_AES | RANDOMX_FLAG_V2, RANDOMX_FLAG_FULL_MEM | RANDOMX_FLAG_JIT | RANDOMX_FLAG_SECURE, RANDOMX_FLAG_FULL_MEM, RANDOMX_FLAG_FULL_MEM | RANDOMX_FLAG_HARD_AES | RANDOMX_FLAG_V2};
static const int NVMFLAGS = sizeof VMFLAGS / sizeof VMFLAGS[0];
static std::map<std::pair<Bytes, int>, Digest> seqMemo;   // second: v2 | fast << 1
static int memoKey(int vmFlags) { return ((vmFlags & RANDOMX_FLAG_V2) ? 1 : 0) | ((vmFlags & RANDOMX_FLAG_FULL_MEM) ? 2 : 0); }
static Digest sequential(const Bytes& in, int mk) {
	auto k = std::make_pair(in, mk); auto it = seqMemo.find(k); if (it != seqMemo.end()) return it->second;
	const int v2 = mk & 1;
	randomx_vm* vm = (mk & 2) ? randomx_create_vm((randomx_flags)(RANDOMX_FLAG_FULL_MEM | (v2 ? RANDOMX_FLAG_V2 : 0)), nullptr, &fastDs)   // interpreter: no code shared with the JIT VMs of the threads
	                          : randomx_create_vm((randomx_flags)(RANDOMX_FLAG_JIT | (v2 ? RANDOMX_FLAG_V2 : 0)), refCache, nullptr);
	Digest d; randomx_calculate_hash(vm, in.data(), in.size(), d.data()); randomx_destroy_vm(vm);
	seqMemo[k] = d; return d;
}

static std::string body(const WCase& c) {
	// sequential expectations first (single-threaded)
	for (auto& in : c.inputs) for (int mk = 0; mk < 4; ++mk) sequential(in, mk);
	if (c.fresh) for (int i = 0; i < 2; ++i) {
		randomx_release_cache(sharedCache[i]);
		sharedCache[i] = randomx_alloc_cache(i ? RANDOMX_FLAG_JIT : RANDOMX_FLAG_DEFAULT);
		if (!sharedCache[i]) return "harness: cache allocation failed";
		randomx_init_cache(sharedCache[i], KEY, sizeof KEY - 1);
	}
	const uint64_t N = randomx_dataset_item_count();
	// disjoint dataset ranges: thread t, j-th init op gets range slot (t*8+j)
	const uint64_t slotItems = 1024;
	// the end of the dataset goes to the first T_INITDS step (in thread order) whose first operand is a multiple of 11 - at most one per
	// workload: two of them would be overlapping ranges, which the property excludes (an earlier version let every such step take the end;
	// two threads then wrote the same last items and ThreadSanitizer rightly reported it - a false alarm of the harness, found when the
	// dataset-initialisation-heavy workloads made the coincidence frequent)
	const Step* endOwner = nullptr;
	for (auto& t : c.threads) { for (auto& k : t) if (!endOwner && k.op == T_INITDS && k.a % 11 == 0) endOwner = &k; }
	int before = tsanReports.load();
	std::vector<std::string> errs(c.threads.size());
	std::vector<std::vector<std::pair<uint64_t, uint64_t>>> ranges(c.threads.size());
	std::atomic<int> go{0};
	std::vector<std::thread> th;
	for (size_t t = 0; t < c.threads.size(); ++t) th.emplace_back([&, t] {
		while (!go.load()) sched_yield();
		randomx_vm* vm = nullptr; int vmFlags = 0; int dsOps = 0;
		for (auto& k : c.threads[t]) {
			if (!errs[t].empty()) break;
			switch (k.op) {
			case T_CREATE: { if (vm) { randomx_destroy_vm(vm); vm = nullptr; } vmFlags = VMFLAGS[k.a % NVMFLAGS]; vm = (vmFlags & RANDOMX_FLAG_FULL_MEM) ? randomx_create_vm((randomx_flags)vmFlags, nullptr, &fastDs) : randomx_create_vm((randomx_flags)vmFlags, sharedCache[(vmFlags & RANDOMX_FLAG_JIT) ? 1 : k.b & 1], nullptr); if (!vm) errs[t] = "randomx_create_vm returned NULL in a thread"; break; }
			case T_HASH: { if (!vm) break; const Bytes& in = c.inputs[k.a % c.inputs.size()]; Digest d; randomx_calculate_hash(vm, in.data(), in.size(), d.data()); if (d != seqMemo[{in, memoKey(vmFlags)}]) errs[t] = "digest computed concurrently (vm flags " + std::to_string(vmFlags) + ") differs from the sequential result"; break; }
			case T_BATCH: { if (!vm) break; const Bytes& a = c.inputs[k.a % c.inputs.size()]; const Bytes& b = c.inputs[k.b % c.inputs.size()]; Digest d0, d1; randomx_calculate_hash_first(vm, a.data(), a.size()); randomx_calculate_hash_next(vm, b.data(), b.size(), d0.data()); randomx_calculate_hash_last(vm, d1.data());
				int mk = memoKey(vmFlags); if (d0 != seqMemo[{a, mk}] || d1 != seqMemo[{b, mk}]) errs[t] = "batch digests computed concurrently differ from the sequential results"; break; }
			case T_DESTROY: { if (vm) { randomx_destroy_vm(vm); vm = nullptr; } break; }
			case T_INITDS: { if (dsOps >= 8) break; uint64_t slot = t * 8 + dsOps++; uint64_t start = (slot * 7919 * slotItems) % (N - 2 * slotItems); start = start / slotItems * slotItems + (k.a % 3); uint64_t count = 1 + (uint64_t)k.b % (slotItems - 8);
				if (&k == endOwner) { start = N - count; }   // exactly one operation of the workload gets the end of the dataset (ranges must stay disjoint)
				randomx_init_dataset(&sparseDs, sharedCache[c.dsJit ? 1 : 0], start, count); ranges[t].emplace_back(start, count); break; }
			case T_OWNCACHE: { randomx_cache* own = randomx_alloc_cache((randomx_flags)((k.a & 1) ? RANDOMX_FLAG_JIT : 0)); if (!own) { errs[t] = "private cache allocation failed"; break; } char key[24]; snprintf(key, sizeof key, "private %d %d", (int)t, k.b & 3); randomx_init_cache(own, key, strlen(key)); if (k.b & 4) { key[0] = 'q'; randomx_init_cache(own, key, strlen(key)); } randomx_release_cache(own); break; }
			default: { for (int i = 0; i < (k.a & 15); ++i) sched_yield(); volatile int spin = 0; for (int i = 0; i < (k.b & 255) * 64; ++i) spin += i; break; }
			}
		}
		if (vm) randomx_destroy_vm(vm);
	});
	go.store(1);
	for (auto& t : th) t.join();
	for (auto& e : errs) if (!e.empty()) return e;
	// dataset bytes equal the sequential computation
	uint64_t itemsChecked = 0;
	for (auto& rs : ranges) for (auto& r : rs) for (uint64_t i = r.first; i < r.first + r.second; i += (r.second > 64 ? 17 : 1)) {
		uint64_t ref[8]; randomx::initDatasetItem(sharedCache[0], (uint8_t*)ref, i); ++itemsChecked;
		if (memcmp(ref, sparseDs.memory + i * 64, 64) != 0) return "dataset item " + std::to_string(i) + " initialised concurrently differs from the sequential computation";
	}
	for (auto& rs : ranges) for (auto& r : rs) madvise(sparseDs.memory + r.first * 64 / 4096 * 4096, (r.second * 64 + 8191) / 4096 * 4096, MADV_DONTNEED);
	int races = tsanReports.load() - before;
	if (races > 0) return "ThreadSanitizer reported " + std::to_string(races) + " data race(s) during the workload; first: " + firstReport;
	if (vh::st().replaying) return "";
	// classification
	std::map<int, int> opThreads; bool hardAesCreators = false; int creators = 0, hardCreators = 0;
	for (auto& t : c.threads) { bool seen[T_NOPS] = {false}; for (auto& k : t) { seen[k.op] = true; if (k.op == T_CREATE && (VMFLAGS[k.a % NVMFLAGS] & RANDOMX_FLAG_HARD_AES)) seen[T_NOPS - 1] = true; } for (int o = 0; o < T_NOPS - 1; ++o) if (seen[o]) opThreads[o]++; if (seen[T_CREATE]) creators++; if (seen[T_NOPS - 1]) hardCreators++; }
	vh::label("threads:" + std::to_string(c.threads.size())); if (c.fresh) vh::label(creators >= 2 ? "fresh-shared-cache:first-attach-concurrent" : "fresh-shared-cache");
	{ int fastHashers = 0; for (auto& t : c.threads) { bool fast = false, hashed = false; for (auto& k : t) { if (k.op == T_CREATE) fast = (VMFLAGS[k.a % NVMFLAGS] & RANDOMX_FLAG_FULL_MEM) != 0; if ((k.op == T_HASH || k.op == T_BATCH) && fast) hashed = true; } if (hashed) ++fastHashers; }
	  if (fastHashers >= 2) vh::label("concurrent:fast-mode-hash-over-shared-dataset"); else if (fastHashers == 1) vh::label("fast-mode-hash-alongside"); }
	if (creators >= 2) vh::label("concurrent:vm-creation"); if (hardCreators >= 2) { vh::label("concurrent:hard-aes-vm-creation"); hardAesCreators = true; }
	if (opThreads[T_HASH] >= 2) vh::label("concurrent:hash-over-shared-cache"); if (opThreads[T_INITDS] >= 2) vh::label(c.dsJit ? "concurrent:dataset-init(compiled)" : "concurrent:dataset-init(interpreted)");
	if (opThreads[T_INITDS] >= 1 && opThreads[T_HASH] >= 1) vh::label("concurrent:dataset-init+hash"); if (opThreads[T_OWNCACHE] >= 1) vh::label("private-cache-lifecycle-alongside");
	vh::label("dataset-items-checked", itemsChecked);
	int kinds = 0; for (auto& kv : opThreads) if (kv.first != T_YIELD && kv.second > 0) ++kinds;
	if (c.threads.size() >= 2 && kinds >= 2) { uint64_t h = c.dsJit; for (auto& t : c.threads) { h = vh::mix(h, 77); for (auto& k : t) h = vh::mix(h, k.op * 65536 + k.a * 256 + k.b); } vh::nontrivial(h); }
	(void)hardAesCreators;
	return "";
}

// mode 0: mixed workload; 1: mixed + private cache lifecycles; 2: dataset-initialisation heavy (many short ranges, counts 1..12, so that
// the short-range and tail paths of several threads overlap in time - both oracles get their chance: TSan and the item comparison)
static rc::Gen<WCase> genWorkload(int mode) {
	using namespace rc;
	const bool ownCache = mode == 1;
	auto stepGen = gen::apply([ownCache, mode](int w, int a, int b) {
		static const int table[] = {T_CREATE, T_CREATE, T_HASH, T_HASH, T_HASH, T_BATCH, T_DESTROY, T_INITDS, T_INITDS, T_YIELD, T_YIELD, T_OWNCACHE};
		static const int dsTable[] = {T_INITDS, T_INITDS, T_INITDS, T_INITDS, T_INITDS, T_INITDS, T_INITDS, T_INITDS, T_HASH, T_YIELD, T_INITDS, T_INITDS};
		int op = mode == 2 ? dsTable[w % 12] : table[w % 12]; if (op == T_OWNCACHE && !ownCache) op = T_HASH;
		if (mode == 2 && op == T_INITDS) b = b % 12;
		return Step{op, a, b};
	}, gen::inRange(0, 12), gen::inRange(0, 256), gen::inRange(0, 1024));
	return gen::resize(100, gen::apply([mode](std::vector<std::vector<Step>> th, std::vector<Bytes> in, int dsJit, int first, int fresh) {
		WCase c; c.inputs = in; c.dsJit = dsJit; c.fresh = fresh;
		if (th.size() < 2) th.resize(2); if (th.size() > 8) th.resize(8);
		if (mode == 2) { if (th.size() < 4) th.resize(4); c.dsJit = 0; c.fresh = 0; }   // interpreted initialiser: its stores are visible to TSan (JIT-emitted stores are not)
		for (auto& t : th) { if (mode == 2) { while (t.size() < 7) t.push_back(Step{T_INITDS, (int)t.size() * 7 + 1, (int)t.size() + 1}); } if (t.size() > 7) t.resize(7); if (mode != 2 && t.size() > 6) t.resize(6); t.insert(t.begin(), Step{T_CREATE, first + (int)(&t - &th[0]), 0}); int owns = 0; for (auto& k : t) if (k.op == T_OWNCACHE && ++owns > 1) k.op = T_YIELD; }
		c.threads = th;
		return c;
	}, gen::container<std::vector<std::vector<Step>>>(gen::container<std::vector<Step>>(stepGen)), gen::container<std::vector<Bytes>>(3, vg::genBytesLen(gen::inRange(0, 80))), gen::inRange(0, 2), gen::inRange(0, NVMFLAGS), gen::inRange(0, 2)));
}

int main(int argc, char** argv) {
	vh::registerCheck<WCase>("workload", [] { return genWorkload(0); }, body, true, nullptr, 4);
	vh::registerCheck<WCase>("workload_owncache", [] { return genWorkload(1); }, body, true, nullptr, 2);
	vh::registerCheck<WCase>("workload_dsinit", [] { return genWorkload(2); }, body, true, nullptr, 2);
	return vh::harnessMain(argc, argv, [] {
		sharedCache[0] = randomx_alloc_cache(RANDOMX_FLAG_DEFAULT); sharedCache[1] = randomx_alloc_cache(RANDOMX_FLAG_JIT);
		randomx_init_cache(sharedCache[0], KEY, sizeof KEY - 1); randomx_init_cache(sharedCache[1], KEY, sizeof KEY - 1);
		refCache = randomx_alloc_cache(RANDOMX_FLAG_JIT); randomx_init_cache(refCache, KEY, sizeof KEY - 1);
		size_t len = ((size_t)randomx::DatasetSize + 4095) / 4096 * 4096;
		sparseDs.memory = (uint8_t*)mmap(nullptr, len, PROT_READ | PROT_WRITE, MAP_PRIVATE | MAP_ANONYMOUS | MAP_NORESERVE, -1, 0); sparseDs.dealloc = nullptr;
		// synthetic complete dataset for the fast-mode VMs
		const size_t chunk = 64u << 20;
		int fd = memfd_create("c14synth", 1); if (fd < 0 || ftruncate(fd, chunk) != 0) { perror("memfd"); abort(); }
		uint8_t* w = (uint8_t*)mmap(nullptr, chunk, PROT_READ | PROT_WRITE, MAP_SHARED, fd, 0); vh::XorShift x(0xC14); x.fill(w, chunk); munmap(w, chunk);
		uint8_t* base = (uint8_t*)mmap(nullptr, len, PROT_NONE, MAP_PRIVATE | MAP_ANONYMOUS | MAP_NORESERVE, -1, 0);
		if (base == MAP_FAILED) { perror("mmap"); abort(); }
		for (size_t off = 0; off < len; off += chunk) if (mmap(base + off, std::min(chunk, len - off), PROT_READ, MAP_SHARED | MAP_FIXED, fd, 0) == MAP_FAILED) { perror("mmap chunk"); abort(); }
		close(fd); fastDs.memory = base; fastDs.dealloc = nullptr;
	});
}
