// C17: entry points of the portable build (compiled with -U__SSE__ -U__SSE2__ -U__AES__ -U__SSSE3__ -U__AVX2__ -U__SIZEOF_INT128__),
// linked into librx_portable.so; only the pv_* symbols are exported.
#include "randomx.h"
#include "dataset.hpp"
#include "intrin_portable.h"
#include "virtual_machine.hpp"
#include "bytecode_machine.hpp"
#include <cfenv>
#include <cstring>
#include <type_traits>
#define PV __attribute__((visibility("default")))

static thread_local const uint8_t* g_inject = nullptr;
extern "C" {
void __real__Z11fillAes4Rx4ILb0EEvPvmS0_(void*, size_t, void*);
void __real__Z11fillAes4Rx4ILb1EEvPvmS0_(void*, size_t, void*);
void __wrap__Z11fillAes4Rx4ILb0EEvPvmS0_(void* s, size_t n, void* b) { if (g_inject) memcpy(b, g_inject, n); else __real__Z11fillAes4Rx4ILb0EEvPvmS0_(s, n, b); }
void __wrap__Z11fillAes4Rx4ILb1EEvPvmS0_(void* s, size_t n, void* b) { if (g_inject) memcpy(b, g_inject, n); else __real__Z11fillAes4Rx4ILb1EEvPvmS0_(s, n, b); }
}

static randomx_cache* g_cache = nullptr;
static randomx_vm* g_vm[2] = {nullptr, nullptr};

extern "C" {
PV int pv_info() {
	int r = 0;
#if defined(__SSE2__)
	r |= 1;
#endif
#if defined(__AES__)
	r |= 2;
#endif
#if defined(__SIZEOF_INT128__)
	r |= 4;
#endif
#if defined(__SSSE3__) || defined(__AVX2__)
	r |= 8;
#endif
	r |= std::is_union<rx_vec_f128>::value ? 16 : 0;   // union/struct-based vector emulation in use
	return r;
}
PV uint64_t pv_mulh(uint64_t a, uint64_t b) { return mulh(a, b); }
PV int64_t pv_smulh(int64_t a, int64_t b) { return smulh(a, b); }
PV uint64_t pv_rotr(uint64_t a, unsigned b) { return rotr(a, b); }
PV uint64_t pv_rotl(uint64_t a, unsigned b) { return rotl(a, b); }
PV void pv_cvt(const void* mem8, double out[2]) { rx_vec_f128 v = rx_cvt_packed_int_vec_f128(mem8); rx_store_vec_f128(out, v); }
// op: 0 add 1 sub 2 mul 3 div 4 sqrt 5 swap 6 xor ; mode: RandomX rounding mode 0-3
PV void pv_fpop(int op, int mode, const double a[2], const double b[2], double out[2]) {
	rx_set_rounding_mode(mode);
	rx_vec_f128 x = rx_load_vec_f128(a), y = rx_load_vec_f128(b), r;
	switch (op) { case 0: r = rx_add_vec_f128(x, y); break; case 1: r = rx_sub_vec_f128(x, y); break; case 2: r = rx_mul_vec_f128(x, y); break; case 3: r = rx_div_vec_f128(x, y); break; case 4: r = rx_sqrt_vec_f128(x); break; case 5: r = rx_swap_vec_f128(x); break; default: r = rx_xor_vec_f128(x, y); break; }
	rx_store_vec_f128(out, r);
	rx_set_rounding_mode(0);
}
PV int pv_init(const void* key, size_t len) {
	if (!g_cache) g_cache = randomx_alloc_cache(RANDOMX_FLAG_DEFAULT);
	if (!g_cache) return -1;
	randomx_init_cache(g_cache, key, len);
	for (int v = 0; v < 2; ++v) { if (g_vm[v]) randomx_vm_set_cache(g_vm[v], g_cache); else g_vm[v] = randomx_create_vm((randomx_flags)(v ? RANDOMX_FLAG_V2 : 0), g_cache, nullptr); if (!g_vm[v]) return -2; }
	return 0;
}
PV void pv_hash(const void* in, size_t n, int v2, void* out) { randomx_calculate_hash(g_vm[v2 ? 1 : 0], in, n, out); }
PV void pv_item(uint64_t idx, void* out64) { randomx::initDatasetItem(g_cache, (uint8_t*)out64, idx); }
PV const void* pv_cache_memory() { return randomx_get_cache_memory(g_cache); }
// runs an injected program through the real run() of the portable InterpretedLightVm; scratchpad in/out, register file out
PV int pv_run(const uint8_t* prog, int v2, int fprc, uint8_t* spad, uint8_t* regOut) {
	randomx_vm* vm = g_vm[v2 ? 1 : 0];
	memcpy((void*)vm->getScratchpad(), spad, RANDOMX_SCRATCHPAD_L3);
	alignas(16) uint64_t seed[8] = {0};
	rx_set_rounding_mode(fprc);
	g_inject = prog; vm->run(seed); g_inject = nullptr;
	int mode = fegetround();
	rx_set_rounding_mode(0);
	memcpy(spad, vm->getScratchpad(), RANDOMX_SCRATCHPAD_L3);
	memcpy(regOut, vm->getRegisterFile(), 256);
	return mode == FE_TONEAREST ? 0 : mode == FE_DOWNWARD ? 1 : mode == FE_UPWARD ? 2 : 3;
}
// caller's rounding mode must survive a single-call hash (fegetenv/fesetenv branch of randomx_calculate_hash)
PV int pv_rounding_preserved(int mode, const void* in, size_t n, int v2, void* out) {
	static const int fe[4] = {FE_TONEAREST, FE_DOWNWARD, FE_UPWARD, FE_TOWARDZERO};
	fesetround(fe[mode & 3]);
	randomx_calculate_hash(g_vm[v2 ? 1 : 0], in, n, out);
	int after = fegetround();
	fesetround(FE_TONEAREST);
	return after == fe[mode & 3];
}
}
