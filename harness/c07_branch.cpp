// C07 - every program terminates within a fixed instruction budget.
// (1) arithmetic: no three consecutive taken branches, on the implementation's decoded constants;
// (2) structure: branch target = instruction after last writer, loop body free of writers/branches (interpreter bytecode + JIT jz read-back);
// (3) dynamic: executed instructions per iteration <= 3*|P| stepping the interpreter's public per-instruction entry point.
#include "harness/vh.hpp"
#include "gen/progs.hpp"
#include "bytecode_machine.hpp"
#include "jit_compiler_x86.hpp"   // private members read through -fno-access-control (harness TU only)
#include "program.hpp"

using namespace randomx;
// the JIT's table of per-instruction code offsets is a private detail: accept a growing container as well as a fixed array
template<class T> static auto recordedOffsets(const T& v, int) -> decltype((int)v.size()) { return (int)v.size(); }
template<class T, size_t N> static int recordedOffsets(const T (&)[N], int n) { return n <= (int)N ? n : (int)N; }


// ---------- (1) arithmetic ------------------------------------------------------------------------------------------
struct ArCase {
	uint32_t imm; int cond; uint64_t hi, low; uint8_t dst;
	std::string dump() const { return vh::KVWriter()("imm", imm)("cond", (uint64_t)cond)("hi", hi)("low", low)("dst", dst).str(); }
	static ArCase parse(const vh::KV& kv) { return ArCase{(uint32_t)vh::getu(kv, "imm"), (int)vh::getu(kv, "cond"), vh::getu(kv, "hi"), vh::getu(kv, "low"), (uint8_t)vh::getu(kv, "dst")}; }
};
static std::string arith(const ArCase& c) {
	const int b = c.cond + RANDOMX_JUMP_OFFSET;
	// spec 5.4.2 reading
	uint64_t cimm = (uint64_t)(int64_t)(int32_t)c.imm;
	cimm |= (uint64_t)1 << b;
	if (b > 0) cimm &= ~((uint64_t)1 << (b - 1));
	const uint64_t mask = (((uint64_t)1 << RANDOMX_JUMP_BITS) - 1) << b;
	// implementation's decoded constants
	BytecodeMachine bm; NativeRegisterFile nreg; InstructionByteCode ibc;
	bm.beginCompilation(nreg);
	Instruction in; in.opcode = (uint8_t)pg::types()[pg::CBRANCH].lo; in.dst = c.dst; in.src = 0; in.mod = (uint8_t)(c.cond << 4); in.setImm32(c.imm);
	bm.compileInstruction(in, 0, ibc);
	if (ibc.type != InstructionType::CBRANCH) return "harness: not a CBRANCH";
	if (ibc.imm != cimm) return "decoded branch constant " + vh::u64s(ibc.imm) + " != spec cimm " + vh::u64s(cimm);
	if ((uint64_t)ibc.memMask != mask) return "decoded condition mask " + vh::u64s(ibc.memMask) + " != spec mask " + vh::u64s(mask);
	// d constructed so that the first test is taken
	uint64_t lowMask = b ? (((uint64_t)1 << b) - 1) : 0;
	uint64_t v1 = (b + 8 < 64 ? (c.hi << (b + 8)) : 0) | (c.low & lowMask);
	uint64_t d = v1 - ibc.imm;
	auto taken = [&](uint64_t v) { return (v & ibc.memMask) == 0; };
	bool t1 = taken(d + ibc.imm), t2 = taken(d + 2 * ibc.imm), t3 = taken(d + 3 * ibc.imm);
	if (!t1) return "harness: first test not taken";
	if (t1 && t2 && t3) return "branch taken three times in a row: d=" + vh::u64s(d) + " cimm=" + vh::u64s(ibc.imm) + " mask=" + vh::u64s(ibc.memMask);
	// the same through the executor: pc must fall through on the third visit at the latest
	nreg.r[c.dst & 7] = d;
	ProgramConfiguration cfg{}; uint8_t spad[8];
	int takenRuns = 0;
	for (int k = 0; k < 3; ++k) { int pc = 5; ibc.target = 1; BytecodeMachine::executeInstruction(ibc, pc, spad, cfg, RANDOMX_FLAG_DEFAULT); if (pc == 1) takenRuns++; else break; }
	if (takenRuns >= 3) return "executor took the branch three times in a row";
	if (takenRuns != (t2 ? 2 : 1)) return "executor disagrees with (dst & mask)==0 rule";
	vh::label(t2 ? "taken-twice" : "taken-once");
	vh::label("cond=" + std::to_string(c.cond));
	vh::nontrivial(vh::mix(vh::mix(vh::mix(c.imm, c.cond), d), 7));
	return "";
}
static rc::Gen<ArCase> genArith() {
	using namespace rc;
	return gen::resize(100, gen::apply([](uint32_t imm, int cond, uint64_t hi, uint64_t low, int kind, uint8_t dst) {
		ArCase c{imm, cond, hi, low, dst};
		int b = cond + RANDOMX_JUMP_OFFSET;
		if (kind >= 1) c.imm |= (0x7fu << (b + 1));            // bits b+1..b+7 of cimm all ones: second take needs a carry only
		if (kind >= 2) { c.low = (((uint64_t)1 << b) - 1) - (low % 5); if (kind == 3) c.imm |= ((1u << (b - 1)) - 1); }   // large low bits -> carry into bit b
		return c;
	}, vh::genU32(), gen::inRange(0, 16), vh::genU64(), vh::genU64(), gen::inRange(0, 4), gen::arbitrary<uint8_t>()));
}

// ---------- (2) structure + (3) dynamic --------------------------------------------------------------------------------
static bool writesInt(const InstructionByteCode& x, const int_reg_t* reg) {
	if (x.type <= InstructionType::IROL_R) return x.idst == reg;       // integer instructions with a destination (IMUL_RCP is decoded as IMUL_R or NOP)
	if (x.type == InstructionType::ISWAP_R) return x.idst == reg || x.isrc == reg;
	return false;
}

static std::string structure(const pg::ProgCase& c) {
	alignas(64) Program prog; memcpy((void*)&prog, c.prog.data(), sizeof prog);
	randomx_flags flags = (randomx_flags)(c.v2 ? RANDOMX_FLAG_V2 : 0);
	const int n = (int)Program::getSize(flags);
	BytecodeMachine bm; NativeRegisterFile nreg; static InstructionByteCode bc[RANDOMX_PROGRAM_MAX_SIZE];
	bm.compileProgram(prog, bc, nreg, flags);
	int branches = 0, toStart = 0;
	std::vector<int> targets(n, -2);
	for (int i = 0; i < n; ++i) {
		if (bc[i].type != InstructionType::CBRANCH) continue;
		++branches;
		const int_reg_t* reg = bc[i].idst;
		int t = bc[i].target;
		targets[i] = t;
		if (reg < &nreg.r[0] || reg > &nreg.r[7]) return "CBRANCH " + std::to_string(i) + ": destination is not an integer register";
		if (t < -1 || t >= i) return "CBRANCH " + std::to_string(i) + ": target " + std::to_string(t) + " is not before the branch";
		for (int j = t + 1; j < i; ++j) {
			if (bc[j].type == InstructionType::CBRANCH) return "CBRANCH " + std::to_string(i) + ": loop body (" + std::to_string(t + 1) + ".." + std::to_string(i - 1) + ") contains another branch at " + std::to_string(j);
			if (writesInt(bc[j], reg)) return "CBRANCH " + std::to_string(i) + ": loop body modifies the branch register at " + std::to_string(j);
		}
		if (t >= 0 && !(bc[t].type == InstructionType::CBRANCH || writesInt(bc[t], reg))) return "CBRANCH " + std::to_string(i) + ": target " + std::to_string(t) + " is not the last writer of the branch register";
		if (t == -1) ++toStart;
	}
	// JIT: read back the jz rel32 that ends every CBRANCH
	{
		static JitCompilerX86* jit = nullptr;
		if (!jit) { jit = new JitCompilerX86(); jit->enableAll(); }
		jit->setFlags((randomx_flags)(flags | (c.hardAes ? RANDOMX_FLAG_HARD_AES : 0)));
		alignas(64) Program p2; memcpy((void*)&p2, c.prog.data(), sizeof p2);
		ProgramConfiguration cfg{}; cfg.readReg0 = 0; cfg.readReg1 = 2; cfg.readReg2 = 4; cfg.readReg3 = 6;
		jit->generateProgram(p2, cfg);
		if (recordedOffsets(jit->instructionOffsets, n) != n) return "JIT compiled " + std::to_string(recordedOffsets(jit->instructionOffsets, n)) + " instructions, expected " + std::to_string(n);
		for (int i = 0; i < n; ++i) {
			if (targets[i] == -2) continue;
			int32_t end = (i + 1 < n) ? jit->instructionOffsets[i + 1] : -1;
			if (end < 0) {   // last instruction: find end by scanning forward from its start for 0F 84 within 32 bytes
				int32_t s = jit->instructionOffsets[i];
				for (int k = 0; k < 32; ++k) if (jit->code[s + k] == 0x0f && jit->code[s + k + 1] == 0x84 && k >= 14) { end = s + k + 6; break; }
				if (end < 0) { vh::label("jit-structure-inconclusive"); continue; }
			}
			const uint8_t* p = jit->code + end - 6;
			if (!(p[0] == 0x0f && p[1] == 0x84)) { vh::label("jit-structure-inconclusive"); continue; }   // not the jz rel32 form: only the dynamic oracle applies
			int32_t rel; memcpy(&rel, p + 2, 4);
			int32_t dest = end + rel;
			int32_t expect = jit->instructionOffsets[targets[i] + 1];
			if (dest != expect) return "JIT: CBRANCH " + std::to_string(i) + " jumps to code offset " + std::to_string(dest) + " but instruction " + std::to_string(targets[i] + 1) + " (after the last writer) starts at " + std::to_string(expect);
			vh::label("jit-jz-readback");
		}
	}
	if (vh::st().replaying) return "";
	vh::label(std::string("shape:") + pg::shapeName(c.shape));
	vh::label("branches", branches); vh::label("branches-to-start", toStart);
	if (branches > 0) vh::nontrivial(c.hash());
	return "";
}

static std::string dynamic(const pg::ProgCase& c) {
	alignas(64) Program prog; memcpy((void*)&prog, c.prog.data(), sizeof prog);
	randomx_flags flags = (randomx_flags)(c.v2 ? RANDOMX_FLAG_V2 : 0);
	const int n = (int)Program::getSize(flags);
	BytecodeMachine bm; NativeRegisterFile nreg; static InstructionByteCode bc[RANDOMX_PROGRAM_MAX_SIZE];
	bm.compileProgram(prog, bc, nreg, flags);
	static std::vector<uint8_t> spad(RANDOMX_SCRATCHPAD_L3);
	vh::XorShift x(c.spadSeed);
	ProgramConfiguration cfg{}; uint64_t em = 0x3300000000000000ULL; cfg.eMask[0] = cfg.eMask[1] = em;
	for (int i = 0; i < 4; ++i) { nreg.a[i] = rx_set_vec_f128(0x4010000000000000ULL + (x.next() >> 12), 0x4030000000000000ULL + (x.next() >> 12)); }
	uint32_t saved = _mm_getcsr();
	rx_reset_float_state();
	uint64_t maxCount = 0; int takenTotal = 0; std::string fail;
	const int iterations = 24;
	for (int it = 0; it < iterations && fail.empty(); ++it) {
		for (int i = 0; i < 8; ++i) nreg.r[i] = x.next();
		for (int i = 0; i < 4; ++i) { nreg.f[i] = rx_set_vec_f128(0x40f0000000000000ULL, 0xc0f0000000000000ULL); nreg.e[i] = rx_set_vec_f128(0x4330000000000000ULL | (x.next() >> 12), 0x4330000000000001ULL); }
		// steer: pick a CBRANCH whose register is unmodified since iteration start (target -1) and make its first test succeed
		std::vector<int> cand; for (int i = 0; i < n; ++i) if (bc[i].type == InstructionType::CBRANCH && bc[i].target == -1) cand.push_back(i);
		if (!cand.empty()) {
			auto& b = bc[cand[x.next() % cand.size()]];
			uint64_t lowMask = ((uint64_t)b.memMask & (~(uint64_t)b.memMask + 1)) - 1;   // bits below the mask
			uint64_t v1 = (x.next() & ~((uint64_t)b.memMask) & ~lowMask) | (lowMask - (x.next() % 3));
			*(int_reg_t*)b.idst = v1 - b.imm;
		}
		uint64_t count = 0;
		for (int pc = 0; pc < n; ++pc) {
			int before = pc;
			BytecodeMachine::executeInstruction(bc[pc], pc, spad.data(), cfg, flags);
			++count;
			if (pc != before) { ++takenTotal; if (pc >= before) { fail = "branch at " + std::to_string(before) + " jumped forward to " + std::to_string(pc); break; } }
			if (count > (uint64_t)3 * n) { fail = "iteration executed more than 3*|P| = " + std::to_string(3 * n) + " instructions"; break; }
		}
		maxCount = std::max(maxCount, count);
	}
	_mm_setcsr(saved);
	if (!fail.empty()) return fail;
	if (vh::st().replaying) return "";
	vh::label("taken-branches", takenTotal);
	vh::label(maxCount > (uint64_t)n ? "iteration-with-reexecution" : "straight-line-only");
	if (maxCount > (uint64_t)2 * n) vh::label("count>2|P|");
	if (takenTotal > 0) vh::nontrivial(c.hash());
	return "";
}

int main(int argc, char** argv) {
	vh::registerCheck<ArCase>("arith", genArith, arith);
	vh::registerCheck<pg::ProgCase>("structure", [] { return pg::genProgCase({4, 1, 6, 1, 2, 0, 2, 0, 3}, 100, false); }, structure, false,
		[](const pg::ProgCase& c) { return pg::minimize(c, [](const pg::ProgCase& t) { return !structure(t).empty(); }); });
	vh::registerCheck<pg::ProgCase>("dynamic", [] { return pg::genProgCase({3, 0, 8, 0, 2, 0, 2, 0, 3}, 100, false); }, dynamic, false,
		[](const pg::ProgCase& c) { return pg::minimize(c, [](const pg::ProgCase& t) { return !dynamic(t).empty(); }); });
	return vh::harnessMain(argc, argv);
}
