// C05 - every instruction word executes with the specified semantics.
// Implementation: BytecodeMachine::compileInstruction + executeInstruction, randomx_vm::initialize, load conversions.
// Oracle: model/ref_vm (written from specs.md ch. 4/5), compared one instruction at a time; FP domain invariants on the
// implementation's own values.
#include "harness/stepcheck.hpp"

static rc::Gen<StepCase> genStep() {
	using namespace rc;
	return gen::resize(100, gen::apply([](uint64_t seed, int n, int v2, int fprc, int spadClass, uint64_t spadSeed, std::vector<std::pair<int, pg::Instr>> ov, int regKind) {
		StepCase c; c.v2 = v2; c.fprc = fprc; c.spadClass = spadClass; c.spadSeed = spadSeed;
		std::vector<uint8_t> buf(pg::ProgramBytes);
		std::vector<pg::Override> o; if (ov.size() > 8) ov.resize(8); for (auto& p : ov) o.push_back({p.first % std::max(1, n), p.second});
		pg::expand(buf.data(), (seed & 7) == 0 ? pg::BRANCHY : (seed & 7) == 1 ? pg::FP_HEAVY : pg::NATURAL, seed, 0, o);
		c.cfg.assign(buf.begin(), buf.begin() + 128);
		c.words.assign(buf.begin() + 128, buf.begin() + 128 + 8 * n);
		pg::R r(seed ^ 0xabcdef);
		for (int i = 0; i < 8; ++i) { c.r[i] = regKind == 0 ? r.u() : r.u64b(); c.fe[i] = r.chance(30) ? (((uint64_t)r.imm32() << 32) | r.imm32()) : r.u(); }
		return c;
	}, gen::arbitrary<uint64_t>(), gen::inRange(1, 65), gen::inRange(0, 2), gen::inRange(0, 4), gen::inRange(0, 5), gen::arbitrary<uint64_t>(),
		gen::container<std::vector<std::pair<int, pg::Instr>>>(gen::pair(gen::inRange(0, 64), pg::genInstrRc())), gen::inRange(0, 3)));
}

int main(int argc, char** argv) {
	if (posix_memalign((void**)&spadImpl, 64, RANDOMX_SCRATCHPAD_L3) || posix_memalign((void**)&spadRef, 64, RANDOMX_SCRATCHPAD_L3)) return 9;
	// minimiser: shortest failing prefix, then earlier instructions replaced by the NOP-equivalent word, then state simplified
	auto mini = [](const StepCase& c0) {
		StepCase c = c0;
		auto fails = [](const StepCase& t) { return !stepBody(t).empty(); };
		size_t n = c.words.size() / 8;
		for (size_t k = 1; k < n; ++k) { StepCase t = c; t.words.resize(8 * k); if (fails(t)) { c = t; break; } }
		std::vector<uint8_t> nop = pg::nopBytes();
		for (size_t i = 0; i + 1 < c.words.size() / 8; ++i) { StepCase t = c; memcpy(&t.words[8 * i], nop.data(), 8); if (memcmp(&c.words[8 * i], nop.data(), 8) != 0 && fails(t)) c = t; }
		{ StepCase t = c; t.spadClass = 1; if (fails(t)) c = t; }
		for (int i = 0; i < 8; ++i) { StepCase t = c; t.r[i] = 0; if (fails(t)) c = t; }
		return c;
	};
	vh::registerCheck<StepCase>("step", genStep, stepBody, false, mini);
	// writes seed inputs for the libFuzzer target (fuzz/corpus/step): without them the fuzzer spends its budget on inputs
	// shorter than the 256-byte state header, i.e. on programs of zero instructions
	vh::Sub d; d.name = "dump_corpus";
	d.runGen = [](int, int, uint64_t) -> bool {
		for (int k = 0; k < 48; ++k) {
			std::vector<uint8_t> buf(pg::ProgramBytes);
			int shape = k % 6 == 0 ? pg::BRANCHY : k % 6 == 1 ? pg::FP_HEAVY : k % 6 == 2 ? pg::SATURATED : k % 6 == 3 ? pg::STORE_L3 : pg::NATURAL;
			pg::expand(buf.data(), shape, 4242 + 13 * k, 0, {});
			int n = 4 + (k * 5) % 60;
			std::vector<uint8_t> in(buf.begin(), buf.begin() + 128);
			pg::R r(77 + k);
			for (int i = 0; i < 16; ++i) { uint64_t v = (i < 8 && (k & 1)) ? r.u64b() : r.u(); for (int b = 0; b < 8; ++b) in.push_back((uint8_t)(v >> (8 * b))); }
			in.insert(in.end(), buf.begin() + 128, buf.begin() + 128 + 8 * n);
			uint64_t spadSeed = 0x9e3779b9ULL * (k + 1);
			for (int i = 7; i >= 0; --i) in.push_back((uint8_t)(spadSeed >> (8 * i)));
			uint16_t ctl = (uint16_t)((k & 1) | (((k >> 1) & 3) << 1) | ((k % 5) << 3));
			in.push_back((uint8_t)(ctl & 0xff)); in.push_back((uint8_t)(ctl >> 8));
			char fn[256]; snprintf(fn, sizeof fn, "fuzz/corpus/step/s%02d", k);
			FILE* f = fopen(fn, "wb"); if (f) { fwrite(in.data(), 1, in.size(), f); fclose(f); }
		}
		return true;
	};
	d.runReplay = [](const vh::KV&) -> std::string { return ""; };
	vh::registry().push_back(d);
	return vh::harnessMain(argc, argv);
}
