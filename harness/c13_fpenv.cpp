// C13 - hashing neither depends on nor disturbs the caller's FP environment.
#include "harness/vh.hpp"
#include "gen/gens.hpp"
#include "randomx.h"
#include "dataset.hpp"
#include <sys/mman.h>
#include <unistd.h>
extern "C" int memfd_create(const char*, unsigned int);
#include <xmmintrin.h>
#include <array>
#include <map>

using Bytes = std::vector<uint8_t>;
using Digest = std::array<uint8_t, 32>;

struct FCase {
	uint32_t csr[3]; int cfg; int api; Bytes in0, in1;
	std::string dump() const { return vh::KVWriter()("csr0", csr[0])("csr1", csr[1])("csr2", csr[2])("cfg", (uint64_t)cfg)("api", (uint64_t)api)("in0", vh::hex(in0.data(), in0.size()))("in1", vh::hex(in1.data(), in1.size())).str(); }
	static FCase parse(const vh::KV& kv) { FCase c; c.csr[0] = (uint32_t)vh::getu(kv, "csr0"); c.csr[1] = (uint32_t)vh::getu(kv, "csr1"); c.csr[2] = (uint32_t)vh::getu(kv, "csr2"); c.cfg = (int)vh::getu(kv, "cfg"); c.api = (int)vh::getu(kv, "api"); c.in0 = vh::unhex(vh::gets(kv, "in0")); c.in1 = vh::unhex(vh::gets(kv, "in1")); return c; }
};

static const int CFGS[] = {0, RANDOMX_FLAG_JIT, RANDOMX_FLAG_HARD_AES, RANDOMX_FLAG_JIT | RANDOMX_FLAG_HARD_AES, RANDOMX_FLAG_V2, RANDOMX_FLAG_JIT | RANDOMX_FLAG_V2, RANDOMX_FLAG_HARD_AES | RANDOMX_FLAG_V2,
	RANDOMX_FLAG_JIT | RANDOMX_FLAG_HARD_AES | RANDOMX_FLAG_V2, RANDOMX_FLAG_JIT | RANDOMX_FLAG_SECURE, RANDOMX_FLAG_JIT | RANDOMX_FLAG_SECURE | RANDOMX_FLAG_V2,
	// fast mode (own VM classes: dataset read in the loop instead of SuperscalarHash) over a synthetic dataset - the oracle compares a VM with itself
	RANDOMX_FLAG_FULL_MEM, RANDOMX_FLAG_FULL_MEM | RANDOMX_FLAG_JIT, RANDOMX_FLAG_FULL_MEM | RANDOMX_FLAG_JIT | RANDOMX_FLAG_HARD_AES | RANDOMX_FLAG_V2, RANDOMX_FLAG_FULL_MEM | RANDOMX_FLAG_HARD_AES | RANDOMX_FLAG_V2,
	RANDOMX_FLAG_FULL_MEM | RANDOMX_FLAG_JIT | RANDOMX_FLAG_SECURE};
static const int NCFGS = sizeof CFGS / sizeof CFGS[0];
static randomx_dataset synthDs;
static randomx_cache* cache = nullptr;
static std::map<int, randomx_vm*> vms;
static randomx_vm* vmFor(int cfg) { auto it = vms.find(cfg); if (it != vms.end()) return it->second; randomx_vm* v = (CFGS[cfg] & RANDOMX_FLAG_FULL_MEM) ? randomx_create_vm((randomx_flags)CFGS[cfg], nullptr, &synthDs) : randomx_create_vm((randomx_flags)CFGS[cfg], cache, nullptr); if (!v) { fprintf(stderr, "vm creation failed\n"); abort(); } vms[cfg] = v; return v; }

static const uint32_t DEFAULT_CSR = 0x1F80;

static std::string body(const FCase& c) {
	randomx_vm* vm = vmFor(c.cfg);
	const uint32_t harness = _mm_getcsr();
	Digest ref0, ref1;
	_mm_setcsr(DEFAULT_CSR);
	randomx_calculate_hash(vm, c.in0.data(), c.in0.size(), ref0.data());
	randomx_calculate_hash(vm, c.in1.data(), c.in1.size(), ref1.data());
	// in which rounding mode does the last program of in0 end? (the batch API is documented not to restore)
	_mm_setcsr(DEFAULT_CSR);
	randomx_calculate_hash_first(vm, c.in0.data(), c.in0.size());
	Digest tmp; randomx_calculate_hash_last(vm, tmp.data());
	uint32_t endCsr = _mm_getcsr();
	_mm_setcsr(harness);
	int endMode = (endCsr >> 13) & 3;
	std::string err;
	if (tmp != ref0) err = "batch digest under default state differs from single-call digest";
	if (err.empty() && c.api == 0) {
		Digest d; uint32_t before, after;
		_mm_setcsr(c.csr[0]);                                  // no floating point work between here ...
		before = _mm_getcsr();
		randomx_calculate_hash(vm, c.in0.data(), c.in0.size(), d.data());
		after = _mm_getcsr();
		_mm_setcsr(harness);                                   // ... and here (exceptions may be unmasked)
		if (d != ref0) err = "digest depends on the caller's MXCSR: entry state " + vh::u64s(c.csr[0]) + " gives " + vh::hex(d.data(), 32) + ", default state gives " + vh::hex(ref0.data(), 32);
		else if (after != before) err = "MXCSR after randomx_calculate_hash is " + vh::u64s(after) + ", on entry it was " + vh::u64s(before);
		// second hash right behind the first under another entry state: a missing per-hash reset would let the mode the first hash ended in leak
		if (err.empty()) {
			_mm_setcsr(c.csr[1]); before = _mm_getcsr();
			randomx_calculate_hash(vm, c.in1.data(), c.in1.size(), d.data());
			after = _mm_getcsr(); _mm_setcsr(harness);
			if (d != ref1) err = "digest of the second hash depends on the caller's MXCSR (entry " + vh::u64s(c.csr[1]) + ")";
			else if (after != before) err = "MXCSR after the second randomx_calculate_hash is " + vh::u64s(after) + ", on entry it was " + vh::u64s(before);
		}
	}
	else if (err.empty()) {
		Digest d0, d1;
		_mm_setcsr(c.csr[0]); randomx_calculate_hash_first(vm, c.in0.data(), c.in0.size());
		_mm_setcsr(c.csr[1]); randomx_calculate_hash_next(vm, c.in1.data(), c.in1.size(), d0.data());
		_mm_setcsr(c.csr[2]); randomx_calculate_hash_last(vm, d1.data());
		_mm_setcsr(harness);
		if (d0 != ref0) err = "pipelined digest (next) depends on the entry MXCSR states " + vh::u64s(c.csr[0]) + "/" + vh::u64s(c.csr[1]);
		else if (d1 != ref1) err = "pipelined digest (last) depends on the entry MXCSR states " + vh::u64s(c.csr[1]) + "/" + vh::u64s(c.csr[2]);
	}
	if (!err.empty() || vh::st().replaying) return err;
	vh::label("entry-rounding:" + std::to_string((c.csr[0] >> 13) & 3)); vh::label((c.csr[0] & 0x8000) ? "entry-FTZ" : "entry-noFTZ"); vh::label((c.csr[0] & 0x40) ? "entry-DAZ" : "entry-noDAZ");
	vh::label(((c.csr[0] & 0x1F80) != 0x1F80) ? "entry-some-exception-unmasked" : "entry-all-masked"); vh::label((c.csr[0] & 0x3F) ? "entry-sticky-flags-set" : "entry-no-flags");
	vh::label("cfg:" + std::to_string(CFGS[c.cfg])); vh::label(c.api ? "api:first/next/last" : "api:single");
	vh::label("last-program-ends-in-mode:" + std::to_string(endMode));
	if (c.csr[0] != DEFAULT_CSR && endMode != 0) vh::nontrivial(vh::mix(vh::mix(c.csr[0] * 65536 + c.csr[1], c.cfg * 2 + c.api), vh::fnv(c.in0.data(), c.in0.size())));
	return "";
}

static rc::Gen<uint32_t> genCsr() {
	using namespace rc;
	return gen::resize(100, gen::oneOf(gen::map(gen::inRange(0, 65536), [](int x) { return (uint32_t)x; }), gen::element<uint32_t>(0x1F80, 0x9FC0, 0x0000, 0xFFFF, 0x7F80, 0x3F80, 0x5F80, 0x1FBF, 0x8040),
		gen::map(gen::inRange(0, 4), [](int r) { return (uint32_t)(0x1F80 | (r << 13)); })));
}

int main(int argc, char** argv) {
	using namespace rc;
	vh::registerCheck<FCase>("fpenv", [] {
		return gen::resize(100, gen::apply([](uint32_t a, uint32_t b, uint32_t c, int cfg, int api, Bytes i0, Bytes i1) { return FCase{{a, b, c}, cfg, api, i0, i1}; },
			genCsr(), genCsr(), genCsr(), gen::inRange(0, NCFGS), gen::inRange(0, 2), vg::genBytesLen(gen::inRange(0, 100)), vg::genBytesLen(gen::inRange(0, 100))));
	}, body, true);
	return vh::harnessMain(argc, argv, [] {
		cache = randomx_alloc_cache(RANDOMX_FLAG_JIT); const char* k = "C13 key"; randomx_init_cache(cache, k, strlen(k));
		// synthetic complete dataset: a 64 MiB pseudo-random chunk mapped repeatedly (the real item count, no 2 GiB of memory)
		const size_t chunk = 64u << 20; const size_t len = ((size_t)randomx_dataset_item_count() * 64 + 4095) / 4096 * 4096;
		int fd = memfd_create("c13synth", 1); if (fd < 0 || ftruncate(fd, chunk) != 0) { perror("memfd"); abort(); }
		uint8_t* w = (uint8_t*)mmap(nullptr, chunk, PROT_READ | PROT_WRITE, MAP_SHARED, fd, 0); vh::XorShift x(0xC13); x.fill(w, chunk); munmap(w, chunk);
		uint8_t* base = (uint8_t*)mmap(nullptr, len, PROT_NONE, MAP_PRIVATE | MAP_ANONYMOUS | MAP_NORESERVE, -1, 0); if (base == MAP_FAILED) { perror("mmap"); abort(); }
		for (size_t off = 0; off < len; off += chunk) if (mmap(base + off, std::min(chunk, len - off), PROT_READ, MAP_SHARED | MAP_FIXED, fd, 0) == MAP_FAILED) { perror("mmap chunk"); abort(); }
		close(fd); synthDs.memory = base; synthDs.dealloc = nullptr;
	});
}
