// Shared by the program-level harnesses: run one generated program through interpreter and JIT, compare states.
#pragma once
#include "harness/rxenv.hpp"
#include "gen/progs.hpp"

static rxe::Env env;
// optional hook called around every injected JIT run (C06: code-buffer checksums)
static std::function<std::string(randomx_vm*, int flags, bool before)> jitHook;

static std::string regDiff(const randomx::RegisterFile& a, const randomx::RegisterFile& b) {
	std::string s;
	for (int i = 0; i < 8; ++i) if (a.r[i] != b.r[i]) s += " r" + std::to_string(i) + ": interp=" + vh::u64s(a.r[i]) + " jit=" + vh::u64s(b.r[i]);
	auto fp = [&](const char* n, const randomx::fpu_reg_t* x, const randomx::fpu_reg_t* y) {
		for (int i = 0; i < 4; ++i) if (memcmp(&x[i], &y[i], 16)) s += std::string(" ") + n + std::to_string(i) + ": interp=" + vh::hex(&x[i], 16) + " jit=" + vh::hex(&y[i], 16);
	};
	fp("f", a.f, b.f); fp("e", a.e, b.e); fp("a", a.a, b.a);
	return s;
}

static std::string compareEngines(const pg::ProgCase& c) {
	int base = (c.hardAes ? RANDOMX_FLAG_HARD_AES : 0) | (c.fast ? RANDOMX_FLAG_FULL_MEM : 0) | (c.v2 ? RANDOMX_FLAG_V2 : 0);
	randomx_vm* vi = env.vm(base);
	randomx_vm* vj = env.vm(base | RANDOMX_FLAG_JIT | (c.secure ? RANDOMX_FLAG_SECURE : 0));
	auto a = rxe::runInjected(vi, c.prog.data(), c.spadClass, c.spadSeed, c.fprc);
	if (jitHook) { std::string h = jitHook(vj, base | RANDOMX_FLAG_JIT | (c.secure ? RANDOMX_FLAG_SECURE : 0), true); if (!h.empty()) return h; }
	auto b = rxe::runInjected(vj, c.prog.data(), c.spadClass, c.spadSeed, c.fprc);
	if (jitHook) { std::string h = jitHook(vj, base | RANDOMX_FLAG_JIT | (c.secure ? RANDOMX_FLAG_SECURE : 0), false); if (!h.empty()) return h; }
	if (memcmp(&a.reg, &b.reg, sizeof a.reg) != 0) return "register file differs after the program:" + regDiff(a.reg, b.reg);
	const uint8_t* sa = (const uint8_t*)vi->getScratchpad(); const uint8_t* sb = (const uint8_t*)vj->getScratchpad();
	if (memcmp(sa, sb, RANDOMX_SCRATCHPAD_L3) != 0) {
		size_t i = 0; while (sa[i] == sb[i]) ++i;
		return "scratchpad differs at offset " + std::to_string(i & ~7ull) + ": interp=" + vh::hex(sa + (i & ~7ull), 8) + " jit=" + vh::hex(sb + (i & ~7ull), 8);
	}
	if ((a.mxcsr & rxe::MXCSR_CTRL_MASK) != (b.mxcsr & rxe::MXCSR_CTRL_MASK))
		return "MXCSR control bits differ after the program: interp=" + vh::u64s(a.mxcsr) + " jit=" + vh::u64s(b.mxcsr);
	return "";
}

