// Common harness runtime: sub-check registry, rapidcheck driving, statistics, replay files.
// See DESIGN.md sections 1 and 5.
#pragma once
#include <rapidcheck.h>
#include <cstdint>
#include <cstdio>
#include <cstdlib>
#include <cstring>
#include <functional>
#include <map>
#include <sstream>
#include <string>
#include <unordered_set>
#include <vector>
#include <unistd.h>

namespace vh {

using KV = std::map<std::string, std::string>;

inline std::string hex(const void* p, size_t n) {
	static const char* d = "0123456789abcdef";
	std::string s;
	s.reserve(n * 2);
	const uint8_t* b = (const uint8_t*)p;
	for (size_t i = 0; i < n; ++i) { s.push_back(d[b[i] >> 4]); s.push_back(d[b[i] & 15]); }
	return s;
}
inline std::vector<uint8_t> unhex(const std::string& s) {
	std::vector<uint8_t> v;
	auto val = [](char c) -> int { return c >= '0' && c <= '9' ? c - '0' : c >= 'a' && c <= 'f' ? c - 'a' + 10 : c >= 'A' && c <= 'F' ? c - 'A' + 10 : 0; };
	for (size_t i = 0; i + 1 < s.size(); i += 2) v.push_back((uint8_t)(val(s[i]) * 16 + val(s[i + 1])));
	return v;
}
inline std::string u64s(uint64_t x) { char b[32]; snprintf(b, sizeof b, "0x%llx", (unsigned long long)x); return b; }
inline uint64_t getu(const KV& kv, const std::string& k, uint64_t def = 0) {
	auto it = kv.find(k);
	if (it == kv.end()) return def;
	return strtoull(it->second.c_str(), nullptr, 0);
}
inline std::string gets(const KV& kv, const std::string& k, const std::string& def = "") {
	auto it = kv.find(k);
	return it == kv.end() ? def : it->second;
}
inline uint64_t fnv(const void* p, size_t n, uint64_t h = 1469598103934665603ULL) {
	const uint8_t* b = (const uint8_t*)p;
	for (size_t i = 0; i < n; ++i) { h ^= b[i]; h *= 1099511628211ULL; }
	return h;
}
inline uint64_t mix(uint64_t h, uint64_t v) { return fnv(&v, 8, h); }

struct KVWriter {
	std::ostringstream os;
	KVWriter& operator()(const std::string& k, const std::string& v) { os << k << "=" << v << "\n"; return *this; }
	KVWriter& operator()(const std::string& k, uint64_t v) { os << k << "=" << u64s(v) << "\n"; return *this; }
	KVWriter& bytes(const std::string& k, const void* p, size_t n) { os << k << "=" << hex(p, n) << "\n"; return *this; }
	std::string str() const { return os.str(); }
};

struct Failure { std::string replay, why; };

struct State {
	std::string prop, out, replayDir = "replay", tier = "quick", plan, aux;
	int worker = 0, nworkers = 1;
	uint64_t seed = 1;
	uint64_t evaluations = 0;
	std::map<std::string, uint64_t> labels;
	std::unordered_set<uint64_t> nontrivial;
	uint64_t nontrivialOverflow = 0;
	std::vector<std::string> samples;
	std::vector<Failure> failures;
	std::map<std::string, std::pair<uint64_t, bool>> subs;
	std::string curSub;
	bool writeCurrent = false;
	bool replaying = false;
	std::string lastFailText, lastFailWhy;
};
inline State& st() { static State s; return s; }

inline void label(const std::string& l, uint64_t n = 1) { st().labels[l] += n; }
inline void nontrivial(uint64_t h) {
	auto& s = st();
	if (s.nontrivial.size() < 400000) s.nontrivial.insert(h);
	else if (!s.nontrivial.count(h)) s.nontrivialOverflow++;   // not counted as distinct (conservative)
}
inline void sample(const std::string& text) {
	auto& s = st();
	if (s.samples.size() < 3) s.samples.push_back(text.size() > 1500 ? text.substr(0, 1500) + "..." : text);
}
inline unsigned caseTimeoutSeconds() { const char* e = getenv("VERIF_CASE_TIMEOUT"); return e ? (unsigned)atoi(e) : 300u; }
// called before a heavy case is executed, so that a crash can be attributed
inline void current(const std::string& caseText) {
	auto& s = st();
	if (!s.writeCurrent || s.out.empty()) return;
	std::string p = s.out + ".current";
	FILE* f = fopen(p.c_str(), "w");
	if (f) { fprintf(f, "sub=%s\n%s", s.curSub.c_str(), caseText.c_str()); fclose(f); }
	alarm(caseTimeoutSeconds());   // hang watchdog: > 1000x the normal case time; SIGALRM kills the worker, the driver replays the case in flight
}
inline void clearCurrent() {
	auto& s = st();
	alarm(0);
	if (!s.writeCurrent || s.out.empty()) return;
	unlink((s.out + ".current").c_str());
}

struct Sub {
	std::string name;
	// runs n generated cases with given seed; returns true if property held
	std::function<bool(int n, int maxSize, uint64_t seed)> runGen;
	// replays one case; returns "" if the property holds for it
	std::function<std::string(const KV&)> runReplay;
};
inline std::vector<Sub>& registry() { static std::vector<Sub> r; return r; }

// Property body convention: returns "" when the case passes, otherwise the reason.
// Case must provide: std::string dump() const; static Case parse(const KV&);
template <class Case>
void registerCheck(const std::string& name, std::function<rc::Gen<Case>()> gen, std::function<std::string(const Case&)> body, bool heavy = false,
	std::function<Case(const Case&)> minimizer = nullptr, long heavyShrinkBudget = 12) {
	Sub s;
	s.name = name;
	s.runGen = [name, gen, body, heavy, minimizer, heavyShrinkBudget](int n, int maxSize, uint64_t seed) -> bool {
		auto& S = st();
		S.curSub = name;
		S.writeCurrent = heavy;
		rc::detail::TestParams params;
		params.seed = seed;
		params.maxSuccess = n;
		params.maxSize = maxSize;
		params.maxDiscardRatio = 10;
		rc::detail::TestMetadata md;
		md.id = name;
		md.description = name;
		S.lastFailText.clear();
		if (!S.subs.count(name)) S.subs[name] = {0, true};
		auto g = gen();
		// shrinking budget: after the first failure only a bounded number of further executions is spent on shrinking
		// (heavy cases cost seconds each); once it is used up every candidate is skipped, which ends rapidcheck's search
		long shrinkBudget = heavy ? heavyShrinkBudget : 20000;
		bool failedOnce = false;
		auto result = rc::detail::checkTestable([&]() {
			Case c = *g;
			if (failedOnce && shrinkBudget-- <= 0) return;
			std::string text = c.dump();
			if (heavy) current(text);
			S.evaluations++;
			S.subs[name].first++;
			std::string why = body(c);
			if (heavy) clearCurrent();
			if (!why.empty()) {
				failedOnce = true;
				S.lastFailText = text;
				S.lastFailWhy = why;
				RC_FAIL(why);
			}
			else if (S.samples.size() < 3 || (S.evaluations % 9973) == 0) sample("[" + name + "] " + text);
		}, md, params);
		rc::detail::FailureResult fr;
		if (result.match(fr)) {
			// lastFailText is the last failing execution == shrunk counterexample
			if (minimizer) {
				// structural minimisation (e.g. instruction-wise delta debugging of a program) on top of rapidcheck's shrink
				std::map<std::string, std::string> kv;
				std::stringstream ss(S.lastFailText); std::string line;
				while (std::getline(ss, line)) { auto p = line.find('='); if (p != std::string::npos) kv[line.substr(0, p)] = line.substr(p + 1); }
				Case m = minimizer(Case::parse(kv));
				std::string why = body(m);
				if (!why.empty()) { S.lastFailText = m.dump(); S.lastFailWhy = why; }
			}
			char fn[512];
			snprintf(fn, sizeof fn, "%s/%s-%s-%llx.txt", S.replayDir.c_str(), S.prop.c_str(), name.c_str(), (unsigned long long)seed);
			FILE* f = fopen(fn, "w");
			if (f) { fprintf(f, "sub=%s\n%s", name.c_str(), S.lastFailText.c_str()); fclose(f); }
			S.failures.push_back({fn, "[" + name + "] " + S.lastFailWhy});
			S.subs[name].second = false;
			fprintf(stderr, "FAIL %s: %s\n  replay file %s\n", name.c_str(), S.lastFailWhy.c_str(), fn);
			return false;
		}
		rc::detail::GaveUpResult gu;
		rc::detail::Error er;
		if (result.match(gu)) { fprintf(stderr, "GAVEUP %s: %s\n", name.c_str(), gu.description.c_str()); label("gaveup:" + name); }
		if (result.match(er)) { fprintf(stderr, "ERROR %s: %s\n", name.c_str(), er.description.c_str()); label("rc-error:" + name); }
		return true;
	};
	s.runReplay = [body](const KV& kv) -> std::string {
		Case c = Case::parse(kv);
		return body(c);
	};
	registry().push_back(s);
}

inline std::string jsonEscape(const std::string& s) {
	std::string o;
	for (unsigned char c : s) {
		if (c == '"') o += "\\\"";
		else if (c == '\\') o += "\\\\";
		else if (c == '\n') o += "\\n";
		else if (c < 0x20 || c >= 0x7f) { char b[8]; snprintf(b, sizeof b, "\\u%04x", c); o += b; }
		else o.push_back((char)c);
	}
	return o;
}

inline void writeStats() {
	auto& S = st();
	if (S.out.empty()) return;
	std::string tmp = S.out + ".tmp";
	FILE* f = fopen(tmp.c_str(), "w");
	if (!f) return;
	fprintf(f, "{\"evaluations\": %llu,\n \"labels\": {", (unsigned long long)S.evaluations);
	bool first = true;
	for (auto& kv : S.labels) { fprintf(f, "%s\"%s\": %llu", first ? "" : ", ", jsonEscape(kv.first).c_str(), (unsigned long long)kv.second); first = false; }
	fprintf(f, "},\n \"nontrivial_hashes\": [");
	first = true;
	for (auto h : S.nontrivial) { fprintf(f, "%s%llu", first ? "" : ",", (unsigned long long)(h >> 11)); first = false; }  // 53 bits: exact in JSON readers
	fprintf(f, "],\n \"nontrivial_overflow\": %llu,\n \"samples\": [", (unsigned long long)S.nontrivialOverflow);
	first = true;
	for (auto& x : S.samples) { fprintf(f, "%s\"%s\"", first ? "" : ", ", jsonEscape(x).c_str()); first = false; }
	fprintf(f, "],\n \"failures\": [");
	first = true;
	for (auto& x : S.failures) { fprintf(f, "%s{\"replay\": \"%s\", \"why\": \"%s\"}", first ? "" : ", ", jsonEscape(x.replay).c_str(), jsonEscape(x.why).c_str()); first = false; }
	fprintf(f, "],\n \"subchecks\": {");
	first = true;
	for (auto& kv : S.subs) { fprintf(f, "%s\"%s\": {\"cases\": %llu, \"ok\": %s}", first ? "" : ", ", jsonEscape(kv.first).c_str(), (unsigned long long)kv.second.first, kv.second.second ? "true" : "false"); first = false; }
	fprintf(f, "}}\n");
	fclose(f);
	rename(tmp.c_str(), S.out.c_str());
}

inline KV readKV(const std::string& path) {
	KV kv;
	FILE* f = fopen(path.c_str(), "r");
	if (!f) return kv;
	std::string line;
	int c;
	while ((c = fgetc(f)) != EOF) {
		if (c == '\n') {
			auto p = line.find('=');
			if (p != std::string::npos) kv[line.substr(0, p)] = line.substr(p + 1);
			line.clear();
		}
		else line.push_back((char)c);
	}
	if (!line.empty()) { auto p = line.find('='); if (p != std::string::npos) kv[line.substr(0, p)] = line.substr(p + 1); }
	fclose(f);
	return kv;
}

// plan string: "sub=N[:maxSize],sub2=M" ; a sub that is not listed is not run
inline int harnessMain(int argc, char** argv, std::function<void()> init = nullptr) {
	auto& S = st();
	std::string replayPath;
	for (int i = 1; i < argc; ++i) {
		std::string a = argv[i];
		auto next = [&]() -> std::string { return i + 1 < argc ? argv[++i] : ""; };
		if (a == "--prop") S.prop = next();
		else if (a == "--out") S.out = next();
		else if (a == "--worker") S.worker = atoi(next().c_str());
		else if (a == "--nworkers") S.nworkers = atoi(next().c_str());
		else if (a == "--seed") S.seed = strtoull(next().c_str(), nullptr, 0);
		else if (a == "--tier") S.tier = next();
		else if (a == "--plan") S.plan = next();
		else if (a == "--replay-dir") S.replayDir = next();
		else if (a == "--replay") replayPath = next();
		else if (a == "--aux") S.aux = next();
	}
	if (init) init();
	if (!replayPath.empty()) {
		S.replaying = true;
		KV kv = readKV(replayPath);
		std::string sub = gets(kv, "sub");
		for (auto& s : registry()) if (s.name == sub) {
			alarm(caseTimeoutSeconds());
			std::string why = s.runReplay(kv);
			alarm(0);
			if (why.empty()) { printf("REPLAY-PASS %s\n", sub.c_str()); return 0; }
			printf("REPLAY-FAIL %s: %s\n", sub.c_str(), why.c_str());
			return 1;
		}
		printf("REPLAY-ERROR unknown sub '%s' in %s\n", sub.c_str(), replayPath.c_str());
		return 3;
	}
	bool ok = true;
	std::stringstream ss(S.plan);
	std::string item;
	while (std::getline(ss, item, ',')) {
		auto p = item.find('=');
		if (p == std::string::npos) continue;
		std::string sub = item.substr(0, p);
		std::string rest = item.substr(p + 1);
		int maxSize = 100;
		auto q = rest.find(':');
		if (q != std::string::npos) { maxSize = atoi(rest.substr(q + 1).c_str()); rest = rest.substr(0, q); }
		long total = atol(rest.c_str());
		long n = total / S.nworkers + ((total % S.nworkers) > S.worker ? 1 : 0);
		if (rest == "all") n = 1;   // enumerating sub-checks that split their domain over the workers themselves
		bool found = false;
		for (auto& s : registry()) if (s.name == sub) {
			found = true;
			if (n > 0) ok = s.runGen((int)n, maxSize, mix(S.seed, fnv(sub.data(), sub.size()))) && ok;
		}
		if (!found) { fprintf(stderr, "unknown sub-check %s\n", sub.c_str()); label("unknown-sub:" + sub); }
		writeStats();
	}
	writeStats();
	return ok ? 0 : 1;
}

// ---- generator helpers -------------------------------------------------------------------------
// boundary-biased 64-bit / 32-bit values (DESIGN 3.1)
inline rc::Gen<uint64_t> genU64() {
	using namespace rc;
	return gen::resize(100, gen::oneOf(
		gen::arbitrary<uint64_t>(),
		gen::map(gen::tuple(gen::inRange(0, 64), gen::inRange(-1, 2)), [](std::tuple<int, int> t) { return (uint64_t)((1ULL << std::get<0>(t)) + (int64_t)std::get<1>(t)); }),
		gen::element<uint64_t>(0, 1, 2, 3, 7, 8, 13, 63, 64, 0x7fffffffffffffffULL, 0x8000000000000000ULL, 0x8000000000000001ULL,
			0xffffffffffffffffULL, 0xfffffffffffffff8ULL, 0x7fffffffULL, 0x80000000ULL, 0xffffffffULL, 0x100000000ULL, 0xffffffff80000000ULL,
			16376, 16384, 262136, 262144, 2097144, 2097152, 2097088),
		gen::map(gen::arbitrary<uint32_t>(), [](uint32_t x) { return (uint64_t)x; }),
		gen::map(gen::arbitrary<int32_t>(), [](int32_t x) { return (uint64_t)(int64_t)x; }),
		// boundary grid over the two 32-bit halves (carry cases of 32x32 decompositions, half-word sign cases)
		gen::map(gen::tuple(gen::inRange(0, 12), gen::inRange(0, 12), gen::arbitrary<uint32_t>()), [](std::tuple<int, int, uint32_t> t) {
			static const uint32_t h[11] = {0, 1, 2, 3, 0x7fffffffu, 0x80000000u, 0x80000001u, 0xfffffffdu, 0xfffffffeu, 0xffffffffu, 0x0000ffffu};
			uint32_t hi = std::get<0>(t) < 11 ? h[std::get<0>(t)] : std::get<2>(t), lo = std::get<1>(t) < 11 ? h[std::get<1>(t)] : (std::get<2>(t) * 2654435761u);
			return ((uint64_t)hi << 32) | lo; })));
}
inline rc::Gen<uint32_t> genU32() {
	using namespace rc;
	return gen::resize(100, gen::oneOf(
		gen::arbitrary<uint32_t>(),
		gen::map(gen::tuple(gen::inRange(0, 32), gen::inRange(-1, 2)), [](std::tuple<int, int> t) { return (uint32_t)((1U << std::get<0>(t)) + std::get<1>(t)); }),
		gen::element<uint32_t>(0, 1, 2, 3, 7, 8, 13, 63, 64, 0x7fffffffU, 0x80000000U, 0x80000001U, 0xffffffffU, 0xfffffff8U,
			16376, 16384, 262136, 262144, 2097144, 2097152, 0xffffffc0U)));
}
inline rc::Gen<std::vector<uint8_t>> genBytes(int maxLen) {
	using namespace rc;
	return gen::resize(100, gen::mapcat(gen::inRange(0, maxLen + 1), [](int n) { return gen::container<std::vector<uint8_t>>((size_t)n, gen::arbitrary<uint8_t>()); }));
}
// xorshift expander for seed-described buffers
struct XorShift {
	uint64_t s;
	explicit XorShift(uint64_t seed) : s(seed * 0x9E3779B97F4A7C15ULL + 0x1234567ULL) { if (!s) s = 1; }
	uint64_t next() { s ^= s << 13; s ^= s >> 7; s ^= s << 17; return s * 0x2545F4914F6CDD1DULL; }
	void fill(void* p, size_t n) {
		uint8_t* b = (uint8_t*)p;
		size_t i = 0;
		for (; i + 8 <= n; i += 8) { uint64_t v = next(); memcpy(b + i, &v, 8); }
		if (i < n) { uint64_t v = next(); memcpy(b + i, &v, n - i); }
	}
};

} // namespace vh
