// C03 - a hash does not depend on the history of the VM, cache or dataset objects.  (C16 reuses this harness, secure VMs only,
// with the page-protection oracle.)
// Generated API histories run under a garbage-filling, address-reusing allocator; every digest returned anywhere in the history
// must equal the digest of a fresh cache + fresh VM for the same (key, input, version).
#define GARBAGE_DEFINE_WRAPPERS
#include "interpose/garbage.hpp"
#include "harness/vh.hpp"
#include "gen/gens.hpp"
#include "randomx.h"
#include "virtual_machine.hpp"
#include <array>
#include <map>
#include <thread>
#ifdef WITH_PROT_ORACLE
#define PROTLOG_DEFINE_WRAPPERS
#include "harness/protlog.hpp"
#endif

using Bytes = std::vector<uint8_t>;
using Digest = std::array<uint8_t, 32>;

enum Op { AllocCache, InitCache, ReleaseCache, AllocDataset, InitDataset, ReleaseDataset, CreateVm, DestroyVm, SetCache, SetDataset, SetV2, ClearV2, Hash, BatchFirst, BatchNext, BatchLast, Churn, ReleaseBoundCache, AllocInitCacheFor, SetCacheLast, BatchRun, NOPS };
static const char* opNames[NOPS] = {"AllocCache", "InitCache", "ReleaseCache", "AllocDataset", "InitDataset", "ReleaseDataset", "CreateVm", "DestroyVm", "SetCache", "SetDataset", "SetV2", "ClearV2", "Hash", "BatchFirst", "BatchNext", "BatchLast", "Churn", "ReleaseBoundCache", "AllocInitCacheFor", "SetCacheLast", "BatchRun"};
struct Cmd { int op, a, b, c; };

struct HCase {
	std::vector<Bytes> keys, inputs; std::vector<Cmd> cmds; int pattern, reuse, secureOnly;
	std::string dump() const {
		vh::KVWriter w; w("pattern", (uint64_t)pattern)("reuse", (uint64_t)reuse)("secureOnly", (uint64_t)secureOnly)("nkeys", (uint64_t)keys.size())("ninputs", (uint64_t)inputs.size())("ncmds", (uint64_t)cmds.size());
		for (size_t i = 0; i < keys.size(); ++i) w("key" + std::to_string(i), vh::hex(keys[i].data(), keys[i].size()));
		for (size_t i = 0; i < inputs.size(); ++i) w("input" + std::to_string(i), vh::hex(inputs[i].data(), inputs[i].size()));
		for (size_t i = 0; i < cmds.size(); ++i) w("cmd" + std::to_string(i), std::string(opNames[cmds[i].op]) + " " + std::to_string(cmds[i].a) + " " + std::to_string(cmds[i].b) + " " + std::to_string(cmds[i].c));
		return w.str();
	}
	static HCase parse(const vh::KV& kv) {
		HCase c; c.pattern = (int)vh::getu(kv, "pattern"); c.reuse = (int)vh::getu(kv, "reuse"); c.secureOnly = (int)vh::getu(kv, "secureOnly");
		for (size_t i = 0; i < vh::getu(kv, "nkeys"); ++i) c.keys.push_back(vh::unhex(vh::gets(kv, "key" + std::to_string(i))));
		for (size_t i = 0; i < vh::getu(kv, "ninputs"); ++i) c.inputs.push_back(vh::unhex(vh::gets(kv, "input" + std::to_string(i))));
		for (size_t i = 0; i < vh::getu(kv, "ncmds"); ++i) { std::stringstream ss(vh::gets(kv, "cmd" + std::to_string(i))); std::string n; Cmd k{0, 0, 0, 0}; ss >> n >> k.a >> k.b >> k.c; for (int o = 0; o < NOPS; ++o) if (n == opNames[o]) k.op = o; c.cmds.push_back(k); }
		return c;
	}
};

// ---- oracle: fresh cache + fresh VM, objects never touched by a history, allocated outside garbage mode ------------------------
struct Oracle {
	std::map<Bytes, randomx_cache*> caches;
	std::map<std::pair<Bytes, std::pair<Bytes, int>>, Digest> memo;
	Digest get(const Bytes& key, const Bytes& input, int v2) {
		auto k = std::make_pair(key, std::make_pair(input, v2));
		auto it = memo.find(k); if (it != memo.end()) return it->second;
		bool act = garbage::st().active; garbage::st().active = false;
#ifdef WITH_PROT_ORACLE
		protlog::paused() = true;    // the oracle's own (non-secure) VM is not part of the history under test
#endif
		randomx_cache*& c = caches[key];
		if (!c) { if (caches.size() > 6) { for (auto& kv : caches) if (kv.second && kv.first != key) { randomx_release_cache(kv.second); kv.second = nullptr; } } c = randomx_alloc_cache(RANDOMX_FLAG_JIT); randomx_init_cache(c, key.data(), key.size()); }
		randomx_vm* vm = randomx_create_vm((randomx_flags)(RANDOMX_FLAG_JIT | (v2 ? RANDOMX_FLAG_V2 : 0)), c, nullptr);
		Digest d; randomx_calculate_hash(vm, input.data(), input.size(), d.data());
		randomx_destroy_vm(vm);
#ifdef WITH_PROT_ORACLE
		protlog::paused() = false;
#endif
		garbage::st().active = act;
		memo[k] = d; return d;
	}
};
static Oracle oracle;

struct CacheObj { randomx_cache* p; int key; bool jit; bool alive; int epoch; };
struct DsObj { randomx_dataset* p; int key; bool alive; };
struct VmObj { randomx_vm* p; int flags; bool fast; int bound; int boundEpoch; bool v2; int batchInput; bool alive; bool everHashed; std::string hist; };

static std::string body(const HCase& c) {
	std::vector<CacheObj> caches; std::vector<DsObj> dss; std::vector<VmObj> vms;
	std::string err; int skipped = 0, executed = 0, hashes = 0, datasetInits = 0;
	std::map<std::string, int> lab;
	garbage::st().pattern = (uint8_t)c.pattern; garbage::st().reuseBig = c.reuse;
	auto live = [](auto& v) { std::vector<int> r; for (int i = 0; i < (int)v.size(); ++i) if (v[i].alive) r.push_back(i); return r; };
	auto pick = [](const std::vector<int>& l, int a) { return l.empty() ? -1 : l[(size_t)a % l.size()]; };
	auto API = [](auto&& f) { garbage::st().active = true; f(); garbage::st().active = false; };
	auto vmKey = [&](VmObj& v) -> int { return v.fast ? dss[v.bound].key : caches[v.bound].key; };
	auto hashable = [&](VmObj& v) -> bool {
		if (!v.alive || v.bound < 0) return false;
		if (v.fast) return dss[v.bound].alive && dss[v.bound].key >= 0;
		return caches[v.bound].alive && caches[v.bound].key >= 0 && caches[v.bound].epoch == v.boundEpoch;
	};
	auto objectBusy = [&](bool isCache, int idx) { for (auto& v : vms) if (v.alive && v.batchInput >= 0 && v.fast == !isCache && v.bound == idx) return true; return false; };
	auto check = [&](VmObj& v, int inputIdx, const Digest& got, const char* api) {
		Digest exp = oracle.get(c.keys[vmKey(v)], c.inputs[inputIdx], v.v2);
		++hashes;
		if (got != exp) err = std::string(api) + " on VM[" + v.hist + "] returned " + vh::hex(got.data(), 32) + " but a fresh cache + fresh VM give " + vh::hex(exp.data(), 32) + " (key " + std::to_string(vmKey(v)) + ", input " + std::to_string(inputIdx) + ", " + (v.v2 ? "v2" : "v1") + ")";
		if (v.everHashed) lab["hash-after-previous-hash-on-same-vm"]++;
		v.everHashed = true;
	};
	static const int lightFlags[] = {0, RANDOMX_FLAG_JIT, RANDOMX_FLAG_HARD_AES, RANDOMX_FLAG_JIT | RANDOMX_FLAG_HARD_AES, RANDOMX_FLAG_JIT | RANDOMX_FLAG_SECURE, RANDOMX_FLAG_JIT | RANDOMX_FLAG_SECURE | RANDOMX_FLAG_HARD_AES};
	static const int secureFlags[] = {RANDOMX_FLAG_JIT | RANDOMX_FLAG_SECURE, RANDOMX_FLAG_JIT | RANDOMX_FLAG_SECURE | RANDOMX_FLAG_HARD_AES};
	for (size_t ci = 0; ci < c.cmds.size() && err.empty(); ++ci) {
		Cmd k = c.cmds[ci];
		bool done = true;
		// targeted commands: resolved to the generic ones (they are plain API calls; only the operand choice is steered)
		if (k.op == ReleaseBoundCache) { int v = pick(live(vms), k.a); std::vector<int> lc = live(caches); int pos = -1; if (v >= 0 && !vms[v].fast && vms[v].bound >= 0 && caches[vms[v].bound].alive) for (size_t i = 0; i < lc.size(); ++i) if (lc[i] == vms[v].bound) pos = (int)i; if (pos < 0) { ++skipped; lab["skip:ReleaseBoundCache"]++; continue; } k = Cmd{ReleaseCache, pos, 0, 0}; }
		if (k.op == AllocInitCacheFor) {
			int v = pick(live(vms), k.a); if (v < 0 || vms[v].fast || vms[v].bound < 0 || live(caches).size() >= 4) { ++skipped; lab["skip:AllocInitCacheFor"]++; continue; }
			int key = (k.c & 3) ? caches[vms[v].bound].key : (k.b % (int)c.keys.size()); if (key < 0) key = 0;
			randomx_cache* p = nullptr; bool jit = k.b & 1; API([&] { p = randomx_alloc_cache((randomx_flags)(jit ? RANDOMX_FLAG_JIT : 0)); }); if (!p) { err = "randomx_alloc_cache returned NULL"; break; }
			caches.push_back({p, -1, jit, true, 0}); API([&] { randomx_init_cache(p, c.keys[key].data(), c.keys[key].size()); }); caches.back().key = key; caches.back().epoch = 1; ++executed; continue;
		}
		if (k.op == SetCacheLast) { std::vector<int> lc = live(caches); if (lc.empty()) { ++skipped; lab["skip:SetCacheLast"]++; continue; } k = Cmd{SetCache, k.a, (int)lc.size() - 1, 0}; }
		switch (k.op) {
		case AllocCache: { if (live(caches).size() >= 4) { done = false; break; } randomx_cache* p = nullptr; bool jit = k.a & 1; API([&] { p = randomx_alloc_cache((randomx_flags)(jit ? RANDOMX_FLAG_JIT : 0)); }); if (!p) { err = "randomx_alloc_cache returned NULL"; break; } caches.push_back({p, -1, jit, true, 0}); break; }
		case InitCache: { int i = pick(live(caches), k.a); if (i < 0 || objectBusy(true, i)) { done = false; break; } int key = k.b % (int)c.keys.size();
			if ((k.c & 1) && caches[i].key >= 0 && c.keys.size() >= 5) { static const int rel[5] = {3, 0, 0, 4, 0}; key = rel[caches[i].key]; lab["re-key-to-related-key"]++; }   // steer: re-key to a relative of the current key
			if (caches[i].key >= 0) lab[caches[i].key == key ? "redundant-reinit-same-key" : "re-key"]++;
			API([&] { randomx_init_cache(caches[i].p, c.keys[key].data(), c.keys[key].size()); }); if (caches[i].key != key) caches[i].epoch++; caches[i].key = key; break; }
		case ReleaseCache: { int i = pick(live(caches), k.a); if (i < 0 || objectBusy(true, i)) { done = false; break; }
			for (auto& v : vms) if (v.alive && !v.fast && v.bound == i) lab["cache-released-while-vm-bound"]++;
			API([&] { randomx_release_cache(caches[i].p); }); caches[i].alive = false; break; }
		case AllocDataset: { if (!live(dss).empty() || c.secureOnly == 2) { done = false; break; } randomx_dataset* p = nullptr; API([&] { p = randomx_alloc_dataset(RANDOMX_FLAG_DEFAULT); }); if (!p) { err = "randomx_alloc_dataset returned NULL"; break; } dss.push_back({p, -1, true}); break; }
		case InitDataset: { int d = pick(live(dss), k.a), i = pick(live(caches), k.b); if (d < 0 || i < 0 || caches[i].key < 0 || objectBusy(false, d) || datasetInits >= 2) { done = false; break; }
			if (dss[d].key >= 0) lab["dataset-reinitialised"]++;
			dss[d].key = -1; ++datasetInits;
			API([&] { const unsigned long N = randomx_dataset_item_count(); std::vector<std::thread> th; for (int t = 0; t < 16; ++t) th.emplace_back([&, t] { unsigned long a = N * t / 16, b = N * (t + 1) / 16; randomx_init_dataset(dss[d].p, caches[i].p, a, b - a); }); for (auto& t : th) t.join(); });
			dss[d].key = caches[i].key; break; }
		case ReleaseDataset: { int d = pick(live(dss), k.a); if (d < 0 || objectBusy(false, d)) { done = false; break; } API([&] { randomx_release_dataset(dss[d].p); }); dss[d].alive = false; break; }
		case CreateVm: {
			if (live(vms).size() >= 5) { done = false; break; }
			bool fast = (k.a % 4) == 3 && !live(dss).empty();
			int fl = c.secureOnly ? secureFlags[k.b % 2] : lightFlags[k.b % 6];
			int v2 = k.c & 1;
			randomx_vm* p = nullptr;
			if (fast) { int d = pick(live(dss), k.a / 4); if (d < 0 || dss[d].key < 0) { done = false; break; } API([&] { p = randomx_create_vm((randomx_flags)(fl | RANDOMX_FLAG_FULL_MEM | (v2 ? RANDOMX_FLAG_V2 : 0)), nullptr, dss[d].p); }); if (!p) { err = "randomx_create_vm (fast) returned NULL"; break; } vms.push_back({p, fl, true, d, 0, (bool)v2, -1, true, false, "fast flags=" + std::to_string(fl)}); }
			else { int i = pick(live(caches), k.a / 4); if (i < 0 || caches[i].key < 0) { done = false; break; } API([&] { p = randomx_create_vm((randomx_flags)(fl | (v2 ? RANDOMX_FLAG_V2 : 0)), caches[i].p, nullptr); }); if (!p) { err = "randomx_create_vm (light) returned NULL"; break; } vms.push_back({p, fl, false, i, caches[i].epoch, (bool)v2, -1, true, false, "light flags=" + std::to_string(fl)}); }
			break; }
		case DestroyVm: { int v = pick(live(vms), k.a); if (v < 0 || vms[v].batchInput >= 0) { done = false; break; } API([&] { randomx_destroy_vm(vms[v].p); }); vms[v].alive = false; break; }
		case SetCache: { int v = pick(live(vms), k.a), i = pick(live(caches), k.b); if (v < 0 || i < 0 || vms[v].fast || vms[v].batchInput >= 0 || caches[i].key < 0) { done = false; break; }
			VmObj& V = vms[v];
			if (V.bound == i) lab[V.boundEpoch == caches[i].epoch ? "set_cache-same-object-unchanged" : "rebind-after-re-key"]++;
			else if (V.bound >= 0 && caches[V.bound].key == caches[i].key) lab[caches[V.bound].alive ? "rebind-same-key-different-object" : "rebind-same-key-after-release"]++;
			else lab["rebind-other-cache"]++;
			API([&] { randomx_vm_set_cache(V.p, caches[i].p); }); V.bound = i; V.boundEpoch = caches[i].epoch; V.hist += ">set_cache"; break; }
		case SetDataset: { int v = pick(live(vms), k.a), d = pick(live(dss), k.b); if (v < 0 || d < 0 || !vms[v].fast || vms[v].batchInput >= 0 || dss[d].key < 0) { done = false; break; } API([&] { randomx_vm_set_dataset(vms[v].p, dss[d].p); }); vms[v].bound = d; vms[v].hist += ">set_dataset"; lab["set_dataset"]++; break; }
		case SetV2: case ClearV2: { int v = pick(live(vms), k.a); if (v < 0 || vms[v].batchInput >= 0) { done = false; break; } bool to = k.op == SetV2; if (vms[v].v2 != to && vms[v].everHashed) lab["v1<->v2-switch-after-hash"]++; API([&] { if (to) vms[v].p->setFlagV2(); else vms[v].p->clearFlagV2(); }); vms[v].v2 = to; vms[v].hist += to ? ">v2" : ">v1"; break; }
		case Hash: { int v = pick(live(vms), k.a); if (v < 0 || vms[v].batchInput >= 0 || !hashable(vms[v])) { done = false; break; } int in = k.b % (int)c.inputs.size(); Digest d; API([&] { randomx_calculate_hash(vms[v].p, c.inputs[in].data(), c.inputs[in].size(), d.data()); }); check(vms[v], in, d, "randomx_calculate_hash"); vms[v].hist += ">hash"; break; }
		case BatchFirst: { int v = pick(live(vms), k.a); if (v < 0 || vms[v].batchInput >= 0 || !hashable(vms[v])) { done = false; break; } int in = k.b % (int)c.inputs.size(); API([&] { randomx_calculate_hash_first(vms[v].p, c.inputs[in].data(), c.inputs[in].size()); }); vms[v].batchInput = in; vms[v].hist += ">first"; break; }
		case BatchNext: { int v = -1; for (int i : live(vms)) if (vms[i].batchInput >= 0) { v = i; if ((k.a & 1) == 0) break; } if (v < 0) { done = false; break; } int in = k.b % (int)c.inputs.size(); Digest d; API([&] { randomx_calculate_hash_next(vms[v].p, c.inputs[in].data(), c.inputs[in].size(), d.data()); }); check(vms[v], vms[v].batchInput, d, "randomx_calculate_hash_next"); vms[v].batchInput = in; vms[v].hist += ">next"; lab["batch-next"]++; break; }
		case BatchLast: { int v = -1; for (int i : live(vms)) if (vms[i].batchInput >= 0) { v = i; if ((k.a & 1) == 0) break; } if (v < 0) { done = false; break; } Digest d; API([&] { randomx_calculate_hash_last(vms[v].p, d.data()); }); check(vms[v], vms[v].batchInput, d, "randomx_calculate_hash_last"); vms[v].batchInput = -1; vms[v].hist += ">last"; lab["batch-last"]++; break; }
		case BatchRun: {   // a whole pipeline first, next x n, last - the way the batch API is meant to be used
			int v = pick(live(vms), k.a); if (v < 0 || vms[v].batchInput >= 0 || !hashable(vms[v])) { done = false; break; }
			int n = 2 + (k.c & 3); int in = k.b % (int)c.inputs.size();
			API([&] { randomx_calculate_hash_first(vms[v].p, c.inputs[in].data(), c.inputs[in].size()); });
			for (int j = 1; j < n && err.empty(); ++j) { int nx = (k.b + j * 5) % (int)c.inputs.size(); Digest d; API([&] { randomx_calculate_hash_next(vms[v].p, c.inputs[nx].data(), c.inputs[nx].size(), d.data()); }); check(vms[v], in, d, "randomx_calculate_hash_next"); in = nx; lab["batch-next"]++; }
			if (err.empty()) { Digest d; API([&] { randomx_calculate_hash_last(vms[v].p, d.data()); }); check(vms[v], in, d, "randomx_calculate_hash_last"); lab["batch-last"]++; }
			lab["batch-pipelines>=3-inputs"] += n >= 3; vms[v].hist += ">batch"; break; }
		case Churn: { garbage::st().active = true; std::vector<void*> ps; for (int i = 0; i < 1 + k.a % 40; ++i) { void* p = nullptr; if (posix_memalign(&p, 64, 16 + (size_t)(k.b * (i + 1)) % 40000) == 0) ps.push_back(p); } for (size_t i = 0; i < ps.size(); i += 2) free(ps[i]); garbage::st().active = false; break; }
		}
		if (done) ++executed; else { ++skipped; lab[std::string("skip:") + opNames[k.op]]++; }
#ifdef WITH_PROT_ORACLE
		if (err.empty()) err = protlog::checkNoWX(std::string(opNames[k.op]) + " (command " + std::to_string(ci) + ")");
#endif
	}
	// clean up: finish batches, destroy everything still alive
	for (auto& v : vms) if (v.alive) { if (v.batchInput >= 0 && err.empty() && hashable(v)) { Digest d; API([&] { randomx_calculate_hash_last(v.p, d.data()); }); check(v, v.batchInput, d, "randomx_calculate_hash_last(cleanup)"); } API([&] { randomx_destroy_vm(v.p); }); }
	for (auto& d : dss) if (d.alive) API([&] { randomx_release_dataset(d.p); });
	for (auto& x : caches) if (x.alive) API([&] { randomx_release_cache(x.p); });
#ifdef WITH_PROT_ORACLE
	if (err.empty()) err = protlog::checkNoWX("cleanup");
#endif
	garbage::reset();
	if (!err.empty() || vh::st().replaying) return err;
	for (auto& kv : lab) vh::label(kv.first, kv.second);
#ifdef WITH_PROT_ORACLE
	{ auto& P = protlog::st(); vh::st().labels["max:library-mmaps"] = P.mmaps; vh::st().labels["max:library-mprotects"] = P.mprotects; vh::st().labels["max:rw-phases"] = P.rwPhases; vh::st().labels["max:rx-phases"] = P.rxPhases; }
	{ bool secureRebind = false; for (auto& v : vms) if (v.hist.find(">set_cache") != std::string::npos && v.hist.rfind(">hash") > v.hist.find(">set_cache") && v.hist.rfind(">hash") != std::string::npos) secureRebind = true; if (secureRebind) vh::label("secure-vm-rebound-then-hashed"); }
#endif
	vh::label("commands-executed", executed); vh::label("commands-skipped(precondition)", skipped); vh::label("hashes-compared", hashes);
	if (datasetInits) vh::label("histories-with-dataset");
	bool nt = hashes > 0 && (lab.count("hash-after-previous-hash-on-same-vm") || lab.count("re-key") || lab.count("rebind-other-cache") || lab.count("rebind-same-key-different-object") || lab.count("rebind-same-key-after-release") || lab.count("v1<->v2-switch-after-hash") || lab.count("batch-next"));
	if (nt) { uint64_t h = c.pattern * 2 + c.reuse; for (auto& k : c.cmds) h = vh::mix(h, k.op * 1000003 + k.a * 1009 + k.b * 31 + k.c); for (auto& k : c.keys) h = vh::fnv(k.data(), k.size(), h); vh::nontrivial(h); }
	return "";
}

static rc::Gen<HCase> genHistory(int secureOnly, int datasetPct) {
	using namespace rc;
	// weights: hashing and binding operations dominate; object churn is frequent enough for address reuse
	auto cmdGen = gen::apply([](int w, int a, int b, int c) {
		static const int table[] = {AllocCache, InitCache, InitCache, InitCache, ReleaseCache, AllocDataset, InitDataset, ReleaseDataset, CreateVm, CreateVm, CreateVm, DestroyVm, SetCache, SetCache, SetCache, SetDataset, SetV2, ClearV2,
			Hash, Hash, Hash, Hash, Hash, Hash, Hash, BatchFirst, BatchNext, BatchNext, BatchLast, Churn, ReleaseBoundCache, ReleaseBoundCache, AllocInitCacheFor, AllocInitCacheFor, AllocInitCacheFor, SetCacheLast, SetCacheLast, SetCacheLast, Hash, BatchRun, BatchRun};
		return Cmd{table[w % (sizeof table / sizeof table[0])], a, b, c};
	}, gen::inRange(0, 41), gen::inRange(0, 64), gen::inRange(0, 64), gen::inRange(0, 4));
	return gen::resize(100, gen::apply([=](std::vector<Cmd> cmds, Bytes k1, Bytes k2, std::vector<Bytes> inputs, int pattern, int reuse, int dsRoll, int scen) {
		HCase c; c.secureOnly = secureOnly;
		// key universe: a generated key, the empty key, a key longer than 60 bytes, and *relatives* of the first key (same length, differing
		// only in the last byte; with an embedded zero byte in front of the difference; a proper prefix / zero-extended version) - keys that
		// any comparison shortcut (C-string compare, prefix compare, length-only compare) would confuse
		Bytes a = k1; if (a.size() < 4) a.resize(4 + a.size(), 0x41);
		if (pattern & 1) a[a.size() / 2] = 0;                       // embedded zero byte
		Bytes a2 = a; a2.back() ^= 0x01;                             // same length, differs after the zero byte
		Bytes a3 = a; if (reuse & 1) a3.push_back(0); else a3.pop_back();   // zero-extended / proper prefix
		c.keys = {a, Bytes(), k2, a2, a3}; if (k2.size() <= 60) { c.keys[2].resize(61 + k2.size(), 0x5a); }
		c.inputs = inputs;
		// a fixed prologue makes most histories productive: cache, init, vm
		c.cmds = {Cmd{AllocCache, 1, 0, 0}, Cmd{InitCache, 0, 0, 0}, Cmd{CreateVm, 0, 1, 0}};
		// in a third of the histories the prologue continues with the rebinding scenario on a VM of a generated class (interpreted ones
		// dereference the cache object on every dataset read, compiled ones only its memory): hash, release the cache the VM is bound to,
		// allocate + initialise a new cache object with the same key (the allocator hands the 256 MiB block out again at the same address),
		// bind the VM to it, hash. This is the history of the set_cache defect found on the pinned tree; with purely generated commands a
		// quick run reached it under one seed in four (measured by reverting the fix), with the scenario prologue under every seed tried.
		if (scen % 3 == 0) { c.cmds[2].b = scen % 6; c.cmds.push_back(Cmd{Hash, 0, scen, 0}); c.cmds.push_back(Cmd{ReleaseBoundCache, 0, 0, 0}); c.cmds.push_back(Cmd{AllocInitCacheFor, 0, scen & 1, 1}); c.cmds.push_back(Cmd{SetCacheLast, 0, 0, 0}); c.cmds.push_back(Cmd{Hash, 0, scen + 1, 0}); }
		bool ds = dsRoll < datasetPct;
		// dataset histories: the prologue also builds the dataset, creates a fast-mode VM of a generated class on it and hashes before and
		// after two version switches (state that a compiled fast VM caches across setFlagV2/clearFlagV2 would otherwise need a lucky draw:
		// a quick run has only a handful of dataset histories because each costs a 2 GiB initialisation)
		if (ds) { c.cmds.push_back(Cmd{AllocDataset, 0, 0, 0}); c.cmds.push_back(Cmd{InitDataset, 0, 0, 0}); c.cmds.push_back(Cmd{CreateVm, 3, scen / 3, scen & 1});
			const int fv = 1; c.cmds.push_back(Cmd{Hash, fv, scen, 0}); c.cmds.push_back(Cmd{(scen & 1) ? ClearV2 : SetV2, fv, 0, 0}); c.cmds.push_back(Cmd{Hash, fv, scen + 1, 0}); c.cmds.push_back(Cmd{(scen & 1) ? SetV2 : ClearV2, fv, 0, 0}); c.cmds.push_back(Cmd{Hash, fv, scen + 2, 0}); }
		for (auto& k : cmds) { if (!ds && (k.op == AllocDataset || k.op == InitDataset)) k.op = Hash; c.cmds.push_back(k); }
		static const int pats[] = {0xA5, 0xFF, 0x00, 0x7F, 0xDD};
		c.pattern = pats[pattern]; c.reuse = reuse;
		return c;
	}, gen::container<std::vector<Cmd>>(cmdGen), vg::genKey(), vg::genKey(), gen::container<std::vector<Bytes>>(6, vg::genInput()), gen::inRange(0, 5), gen::inRange(0, 4), gen::inRange(0, 100), gen::inRange(0, 18)));
}

static HCase minimizeHistory(HCase c, const std::function<bool(const HCase&)>& fails) {
	// drop commands from the end and one by one (indices resolve modulo live objects, so any sub-sequence is a valid history)
	for (size_t span = c.cmds.size() / 2; span >= 1; span /= 2) {
		for (size_t s = 0; s + span <= c.cmds.size();) {
			HCase t = c; t.cmds.erase(t.cmds.begin() + s, t.cmds.begin() + s + span);
			vh::current(t.dump()); bool f = fails(t); vh::clearCurrent();
			if (f) c = t; else s += span;
		}
	}
	return c;
}

int main(int argc, char** argv) {
	auto mini = [](const HCase& c) { return minimizeHistory(c, [](const HCase& t) { return !body(t).empty(); }); };
	vh::registerCheck<HCase>("history", [] { return genHistory(0, 0); }, body, true, mini, 4);
	vh::registerCheck<HCase>("history_ds", [] { return genHistory(0, 100); }, body, true, mini, 2);
	vh::registerCheck<HCase>("secure", [] { return genHistory(1, 0); }, body, true, mini, 4);
	vh::registerCheck<HCase>("secure_ds", [] { return genHistory(1, 100); }, body, true, mini, 2);
	return vh::harnessMain(argc, argv);
}
