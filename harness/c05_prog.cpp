// C05 stage 2 / C02 support: whole programs (2048 iterations of the loop in spec 4.6.2) through the real InterpretedVm
// (program injected at link time) against the specification model.
#define RXENV_DEFINE_WRAPPERS
#include "harness/rxenv.hpp"
#include "gen/progs.hpp"
#include "ref_vm.hpp"

static rxe::Env env;
static std::vector<uint8_t> spadRef(RANDOMX_SCRATCHPAD_L3);

static std::string body(const pg::ProgCase& c) {
	int flags = (c.hardAes ? RANDOMX_FLAG_HARD_AES : 0) | RANDOMX_FLAG_FULL_MEM | (c.v2 ? RANDOMX_FLAG_V2 : 0) | (c.secure ? RANDOMX_FLAG_JIT : 0);   // "secure" bit reused: run the JIT instead
	randomx_vm* vm = env.vm(flags);
	auto out = rxe::runInjected(vm, c.prog.data(), c.spadClass, c.spadSeed, c.fprc);
	ref::Vm m; m.version = c.v2 ? 2 : 1; m.spad = spadRef.data();
	rxe::fillScratchpad(spadRef.data(), c.spadClass, c.spadSeed);
	m.configure(c.prog.data());
	m.loadProgram(c.prog.data() + 128, c.nInstr());
	m.fprc = c.fprc;
	const uint8_t* ds = env.synth.begin();
	m.run([ds](uint64_t addr, uint64_t o[8]) { memcpy(o, ds + addr, 64); });
	uint8_t rf[256]; m.registerFile(rf);
	if (memcmp(rf, &out.reg, 256) != 0) {
		int i = 0; while (rf[i] == ((uint8_t*)&out.reg)[i]) ++i;
		return std::string("register file after the program differs from the specification model at byte ") + std::to_string(i) + " (" + (i < 64 ? "r" : i < 128 ? "f" : i < 192 ? "e" : "a") + std::to_string(i < 64 ? i / 8 : (i % 64) / 16) + ")";
	}
	const uint8_t* sp = (const uint8_t*)vm->getScratchpad();
	if (memcmp(sp, spadRef.data(), RANDOMX_SCRATCHPAD_L3) != 0) { size_t i = 0; while (sp[i] == spadRef[i]) ++i; return "scratchpad differs from the specification model at offset " + std::to_string(i); }
	if ((int)((out.mxcsr >> 13) & 3) != m.fprc) return "fprc after the program is " + std::to_string((out.mxcsr >> 13) & 3) + ", model says " + std::to_string(m.fprc);
	if (m.sawNaN || m.sawSubnormal) return "model produced NaN/subnormal (spec 5.3 claims impossible)";
	if (vh::st().replaying) return "";
	vh::label(std::string("shape:") + pg::shapeName(c.shape)); vh::label(c.v2 ? "v2" : "v1"); vh::label(c.hardAes ? "aes:hard" : "aes:soft"); vh::label(c.secure ? "engine:jit" : "engine:interpreter");
	vh::nontrivial(c.hash());
	return "";
}

int main(int argc, char** argv) {
	auto minimizer = [](const pg::ProgCase& c) { return pg::minimize(c, [](const pg::ProgCase& t) { return !body(t).empty(); }); };
	vh::registerCheck<pg::ProgCase>("prog_vs_model", [] { return pg::genProgCase({6, 2, 2, 1, 1, 2, 1}, 100); }, body, true, minimizer);
	return vh::harnessMain(argc, argv, [] { env.init(true); });
}
