// C11 - Blake2b and the commitment function conform to RFC 7693.
// Oracle: model/ref_blake2b (written from the RFC, anchored to the RFC vector and CPython hashlib).
#include "harness/vh.hpp"
#include <sys/mman.h>
#include "gen/gens.hpp"
#include "ref_blake2b.hpp"
#include "blake2/blake2.h"
#include "randomx.h"

using Bytes = std::vector<uint8_t>;

struct BCase {
	Bytes msg, key; int outlen; std::vector<int> cuts;   // cut points (sorted, may repeat -> empty chunks)
	uint64_t t0inject = 0; bool inject = false;
	std::string dump() const {
		vh::KVWriter w;
		w("msg", vh::hex(msg.data(), msg.size()))("key", vh::hex(key.data(), key.size()))("outlen", (uint64_t)outlen);
		std::string c; for (int x : cuts) c += std::to_string(x) + " ";
		w("cuts", c)("inject", (uint64_t)inject)("t0", t0inject);
		return w.str();
	}
	static BCase parse(const vh::KV& kv) {
		BCase c; c.msg = vh::unhex(vh::gets(kv, "msg")); c.key = vh::unhex(vh::gets(kv, "key")); c.outlen = (int)vh::getu(kv, "outlen");
		std::stringstream ss(vh::gets(kv, "cuts")); int x; while (ss >> x) c.cuts.push_back(x);
		c.inject = vh::getu(kv, "inject"); c.t0inject = vh::getu(kv, "t0");
		return c;
	}
};

static rc::Gen<BCase> genB(bool withCuts, bool inject) {
	using namespace rc;
	return gen::mapcat(vg::genMessage(), [=](Bytes msg) {
		int n = (int)msg.size();
		auto cutGen = withCuts ? gen::resize(100, gen::container<std::vector<int>>(gen::oneOf(gen::inRange(0, n + 1), gen::element(0, 1, 127, 128, 129, 255, 256, 257, n)))) : gen::just(std::vector<int>());
		return gen::apply([=](Bytes key, int outlen, std::vector<int> cuts, uint64_t back, int kind) {
			BCase c; c.msg = msg; c.key = key; c.outlen = outlen;
			for (int& x : cuts) x = std::min(std::max(x, 0), n);
			std::sort(cuts.begin(), cuts.end());
			if (cuts.size() > 12) cuts.resize(12);
			c.cuts = cuts;
			c.inject = inject;
			// counter value before any message byte: a multiple of 128 shortly before the 2^64 wrap (or around 2^32 / small)
			uint64_t base = kind == 0 ? 0 : kind == 1 ? ((uint64_t)1 << 32) : 0;
			c.t0inject = inject ? (base - 128 * (back % 40)) : 0;
			return c;
		}, vg::genBytesLen(gen::resize(100, gen::oneOf(gen::just(0), gen::inRange(0, 65), gen::element(1, 32, 63, 64)))),
			gen::resize(100, gen::oneOf(gen::inRange(1, 65), gen::element(1, 32, 64))), cutGen, gen::arbitrary<uint64_t>(), gen::inRange(0, 3));
	});
}

static std::string oneshot(const BCase& c) {
	uint8_t out[64 + 16], exp[64];
	memset(out, 0xA5, sizeof out);
	int rc_ = blake2b(out, c.outlen, c.msg.data(), c.msg.size(), c.key.empty() ? nullptr : c.key.data(), c.key.size());
	if (rc_ != 0) return "blake2b() rejected valid parameters";
	ref::b2b(exp, c.outlen, c.msg.data(), c.msg.size(), c.key.data(), c.key.size());
	if (memcmp(out, exp, c.outlen) != 0) return "one-shot digest differs from RFC 7693 model: got " + vh::hex(out, c.outlen) + " expected " + vh::hex(exp, c.outlen);
	for (size_t i = c.outlen; i < sizeof out; ++i) if (out[i] != 0xA5) return "blake2b() wrote beyond outlen";
	vh::label("msg:" + vg::lenClass(c.msg.size()));
	vh::label(c.key.empty() ? "key:none" : c.key.size() == 64 ? "key:64" : "key:1..63");
	vh::label(c.outlen == 64 ? "out:64" : c.outlen == 32 ? "out:32" : "out:other");
	if (c.msg.size() > 128 || !c.key.empty() || (c.outlen != 32 && c.outlen != 64)) vh::nontrivial(vh::fnv(c.msg.data(), c.msg.size(), vh::fnv(c.key.data(), c.key.size(), c.outlen)));
	return "";
}

static std::string stream(const BCase& c) {
	blake2b_state S;
	int r = c.key.empty() ? blake2b_init(&S, c.outlen) : blake2b_init_key(&S, c.outlen, c.key.data(), c.key.size());
	if (r != 0) return "init rejected valid parameters";
	ref::Blake2b R;
	R.init(c.outlen, c.key.data(), c.key.size());
	if (c.inject) {
		// same counter state injected on both sides; with a key the first (key) block is still buffered, uncounted
		S.t[0] = c.t0inject; S.t[1] = (c.t0inject > ((uint64_t)1 << 63)) ? 6 : 0;
		R.t[0] = S.t[0]; R.t[1] = S.t[1];
	}
	size_t pos = 0;
	std::vector<int> cuts = c.cuts;
	cuts.push_back((int)c.msg.size());
	bool emptyChunk = false;
	for (int cut : cuts) {
		size_t n = (size_t)cut - pos;
		if (n == 0) emptyChunk = true;
		// an empty update may legally pass any pointer; pass a valid one
		if (blake2b_update(&S, c.msg.data() + pos, n) != 0 && n != 0) return "update failed";
		R.update(c.msg.data() + pos, n);
		pos = cut;
	}
	uint8_t out[64 + 16], exp[64];
	memset(out, 0x5A, sizeof out);
	if (blake2b_final(&S, out, c.outlen) != 0) return "final failed";
	R.final(exp);
	if (memcmp(out, exp, c.outlen) != 0) return "streamed digest differs from RFC 7693 model";
	for (size_t i = c.outlen; i < sizeof out; ++i) if (out[i] != 0x5A) return "final wrote beyond outlen";
	if (!c.inject) {
		uint8_t one[64];
		if (blake2b(one, c.outlen, c.msg.data(), c.msg.size(), c.key.empty() ? nullptr : c.key.data(), c.key.size()) != 0 || memcmp(one, out, c.outlen) != 0)
			return "streamed digest differs from single-call digest";
	}
	vh::label("chunks:" + std::to_string(std::min<size_t>(cuts.size(), 5)));
	if (emptyChunk) vh::label("has-empty-chunk");
	if (c.inject) {
		uint64_t total = c.msg.size() + (c.key.empty() ? 0 : 128);
		bool wraps = c.t0inject + total < c.t0inject || (c.t0inject != 0 && c.t0inject + total == 0);
		vh::label(wraps ? "counter:carry-into-t1" : "counter:no-carry");
		if (wraps) vh::nontrivial(vh::fnv(c.msg.data(), c.msg.size(), c.t0inject));
	}
	else if (cuts.size() > 1 && c.msg.size() > 128) vh::nontrivial(vh::fnv(c.msg.data(), c.msg.size(), vh::fnv(cuts.data(), cuts.size() * 4, c.outlen)));
	return "";
}

struct InvCase {
	int kind; uint64_t a, b; Bytes msg;
	std::string dump() const { return vh::KVWriter()("kind", (uint64_t)kind)("a", a)("b", b)("msg", vh::hex(msg.data(), msg.size())).str(); }
	static InvCase parse(const vh::KV& kv) { InvCase c; c.kind = (int)vh::getu(kv, "kind"); c.a = vh::getu(kv, "a"); c.b = vh::getu(kv, "b"); c.msg = vh::unhex(vh::gets(kv, "msg")); return c; }
};

static std::string invalid(const InvCase& c) {
	uint8_t out[96]; memset(out, 0xC3, sizeof out);
	uint8_t key[256]; memset(key, 7, sizeof key);
	int r = 0;
	blake2b_state S;
	switch (c.kind) {
	case 0: { size_t ol = c.a % 2 ? 0 : 65 + (size_t)(c.b % 1000); r = blake2b(out, ol, c.msg.data(), c.msg.size(), nullptr, 0); vh::label("invalid:outlen"); break; }
	case 1: { size_t kl = 65 + (size_t)(c.b % 190); r = blake2b(out, 1 + c.a % 64, c.msg.data(), c.msg.size(), key, kl); vh::label("invalid:keylen>64"); break; }
	case 2: { r = blake2b(out, 1 + c.a % 64, c.msg.data(), c.msg.size(), nullptr, 1 + c.b % 64); vh::label("invalid:null-key"); break; }
	case 3: { r = blake2b(out, 1 + c.a % 64, nullptr, 1 + c.b % 1000, nullptr, 0); vh::label("invalid:null-input"); break; }
	case 4: { size_t ol = 2 + c.a % 63; if (blake2b_init(&S, ol) != 0) return "init failed"; blake2b_update(&S, c.msg.data(), c.msg.size()); r = blake2b_final(&S, out, ol - 1 - (c.b % (ol - 1))); vh::label("invalid:final-buffer-too-small"); break; }
	case 5: { size_t ol = c.a % 2 ? 0 : 65 + (size_t)(c.b % 1000); r = blake2b_init(&S, ol); vh::label("invalid:init-outlen"); break; }
	case 6: { r = blake2b_init_key(&S, 1 + c.a % 64, key, 65 + c.b % 100); vh::label("invalid:init_key-keylen"); break; }
	default: { r = blake2b(nullptr, 32, c.msg.data(), c.msg.size(), nullptr, 0); vh::label("invalid:null-out"); break; }
	}
	if (r >= 0) return "invalid parameters were accepted (kind " + std::to_string(c.kind) + ")";
	for (size_t i = 0; i < sizeof out; ++i) if (out[i] != 0xC3) return "output written although parameters were rejected (kind " + std::to_string(c.kind) + ")";
	vh::nontrivial(vh::mix(vh::mix(c.kind, c.a), c.b));
	return "";
}

struct ComCase {
	Bytes input, hash;
	std::string dump() const { return vh::KVWriter()("input", vh::hex(input.data(), input.size()))("hash", vh::hex(hash.data(), hash.size())).str(); }
	static ComCase parse(const vh::KV& kv) { ComCase c; c.input = vh::unhex(vh::gets(kv, "input")); c.hash = vh::unhex(vh::gets(kv, "hash")); c.hash.resize(32); return c; }
};
static std::string commitment(const ComCase& c) {
	uint8_t out[48]; memset(out, 0x77, sizeof out);
	randomx_calculate_commitment(c.input.data(), c.input.size(), c.hash.data(), out);
	Bytes cat = c.input; cat.insert(cat.end(), c.hash.begin(), c.hash.end());
	uint8_t exp[32]; ref::b2b(exp, 32, cat.data(), cat.size());
	if (memcmp(out, exp, 32) != 0) return "commitment != Blake2b-256(input || hash)";
	for (int i = 32; i < 48; ++i) if (out[i] != 0x77) return "commitment wrote more than 32 bytes";
	vh::label("input:" + vg::lenClass(c.input.size()));
	vh::nontrivial(vh::fnv(cat.data(), cat.size()));
	return "";
}

// > 4 GiB stream in generated chunk sizes (thorough tier)
struct BigCase {
	uint64_t total, seed;
	std::string dump() const { return vh::KVWriter()("total", total)("seed", seed).str(); }
	static BigCase parse(const vh::KV& kv) { return BigCase{vh::getu(kv, "total"), vh::getu(kv, "seed")}; }
};
static std::string bigstream(const BigCase& c) {
	std::vector<uint8_t> pat(1 << 20);
	vh::XorShift x(c.seed); x.fill(pat.data(), pat.size());
	blake2b_state S; blake2b_init(&S, 64);
	ref::Blake2b R; R.init(64);
	uint64_t done = 0; vh::XorShift cs(c.seed ^ 0x55);
	while (done < c.total) {
		uint64_t n = cs.next() % pat.size() + 1;
		if ((cs.next() & 15) == 0) n = 128 * (cs.next() % 64);
		size_t off = cs.next() % (pat.size() - (size_t)std::min<uint64_t>(n, pat.size() - 1));
		n = std::min<uint64_t>(std::min<uint64_t>(n, pat.size() - off), c.total - done);
		blake2b_update(&S, pat.data() + off, n);
		R.update(pat.data() + off, n);
		done += n;
	}
	uint8_t a[64], b[64];
	blake2b_final(&S, a, 64); R.final(b);
	if (memcmp(a, b, 64) != 0) return "digest of a " + std::to_string(c.total) + "-byte stream differs from model";
	vh::label(c.total > ((uint64_t)1 << 32) ? "stream>4GiB" : "stream<=4GiB");
	vh::nontrivial(vh::mix(c.total, c.seed));
	return "";
}

// one message of more than 4 GiB handed over in ONE call (one-shot function; and a single update after a short one): 32-bit
// length/offset arithmetic inside a call is invisible to any chunked stream. The message lives in an untouched anonymous
// mapping (shared zero page) with pseudo-random content scribbled over the first and last MiB and ~200 scattered pages, so
// it is not periodic with any period dividing 2^32 and costs a few MiB of memory.
static std::string bigshot(const BigCase& c) {
	const uint64_t total = c.total;
	uint8_t* m = (uint8_t*)mmap(nullptr, total, PROT_READ | PROT_WRITE, MAP_PRIVATE | MAP_ANONYMOUS | MAP_NORESERVE, -1, 0);
	if (m == MAP_FAILED) return "";   // cannot be set up here: nothing is claimed (counted by the label below not being set)
	vh::XorShift x(c.seed);
	x.fill(m, 1 << 20); x.fill(m + total - (1 << 20), 1 << 20);
	for (int i = 0; i < 200; ++i) { uint64_t off = x.next() % (total - 4096); x.fill(m + off, 1 + x.next() % 4000); }
	const unsigned outlen = 1 + (unsigned)(c.seed % 64);
	uint8_t exp[64], a[64], b[64];
	{ ref::Blake2b R; R.init(outlen); for (uint64_t done = 0; done < total;) { uint64_t n = std::min<uint64_t>(total - done, 1 << 24); R.update(m + done, n); done += n; } R.final(exp); }
	std::string err;
	if (blake2b(a, outlen, m, total, nullptr, 0) != 0) err = "one-shot call rejected a > 4 GiB message";
	else if (memcmp(a, exp, outlen) != 0) err = "one-shot digest of a " + std::to_string(total) + "-byte message differs from the model (outlen " + std::to_string(outlen) + ")";
	if (err.empty()) {
		const size_t k = 1 + (size_t)(c.seed >> 8) % 300;
		blake2b_state S; blake2b_init(&S, outlen); blake2b_update(&S, m, k); blake2b_update(&S, m + k, total - k); blake2b_final(&S, b, outlen);
		if (memcmp(b, exp, outlen) != 0) err = "update(" + std::to_string(k) + ") + update(rest) of a " + std::to_string(total) + "-byte message differs from the model";
	}
	munmap(m, total);
	if (!err.empty()) return err;
	vh::label("single-call>4GiB");
	vh::nontrivial(vh::mix(c.total, c.seed));
	return "";
}

int main(int argc, char** argv) {
	using namespace rc;
	vh::registerCheck<BCase>("oneshot", [] { return genB(false, false); }, oneshot);
	vh::registerCheck<BCase>("stream", [] { return genB(true, false); }, stream);
	vh::registerCheck<BCase>("counter", [] { return genB(true, true); }, stream);
	vh::registerCheck<InvCase>("invalid", [] {
		return gen::apply([](int k, uint64_t a, uint64_t b, Bytes m) { return InvCase{k, a, b, m}; }, gen::inRange(0, 8), gen::arbitrary<uint64_t>(), gen::arbitrary<uint64_t>(), vg::genBytesLen(gen::inRange(0, 300)));
	}, invalid);
	vh::registerCheck<ComCase>("commitment", [] {
		return gen::apply([](Bytes in, Bytes h) { h.resize(32); return ComCase{in, h}; }, vg::genInput(), vg::genBytesLen(gen::just(32)));
	}, commitment);
	vh::registerCheck<BigCase>("bigstream", [] {
		return gen::apply([](uint64_t extra, uint64_t seed) { return BigCase{((uint64_t)1 << 32) + extra % (1 << 24), seed}; }, gen::arbitrary<uint64_t>(), gen::arbitrary<uint64_t>());
	}, bigstream);
	vh::registerCheck<BigCase>("bigshot", [] {
		return gen::apply([](uint64_t extra, uint64_t seed) { return BigCase{((uint64_t)1 << 32) + 257 + extra % (1 << 22), seed}; }, gen::arbitrary<uint64_t>(), gen::arbitrary<uint64_t>());
	}, bigshot, true, nullptr, 1);
	return vh::harnessMain(argc, argv);
}
