// C10 - the cache is the Argon2d memory fill and is identical across implementations.
// Oracle: model/ref_argon2 (written from RFC 9106, anchored to the RFC's Argon2d test vector).
#include "harness/vh.hpp"
#include "gen/gens.hpp"
#include "ref_argon2.hpp"
#include "randomx.h"
#include "dataset.hpp"
#include "argon2.h"
#include "argon2_core.h"
#include <map>

using Bytes = std::vector<uint8_t>;

static randomx_argon2_impl* implOf(int i) { return i == 0 ? &randomx_argon2_fill_segment_ref : i == 1 ? randomx_argon2_impl_ssse3() : randomx_argon2_impl_avx2(); }
static const char* implName(int i) { return i == 0 ? "ref" : i == 1 ? "ssse3" : "avx2"; }

struct RCase {
	Bytes pwd, salt; uint32_t mBlocks, passes;
	std::string dump() const { return vh::KVWriter()("pwd", vh::hex(pwd.data(), pwd.size()))("salt", vh::hex(salt.data(), salt.size()))("mBlocks", mBlocks)("passes", passes).str(); }
	static RCase parse(const vh::KV& kv) { RCase c; c.pwd = vh::unhex(vh::gets(kv, "pwd")); c.salt = vh::unhex(vh::gets(kv, "salt")); c.mBlocks = (uint32_t)vh::getu(kv, "mBlocks"); c.passes = (uint32_t)vh::getu(kv, "passes"); return c; }
};

static std::string reduced(const RCase& c) {
	ref::Argon2Params p; p.password = c.pwd; p.salt = c.salt; p.lanes = 1; p.tagLength = 0; p.memoryKiB = c.mBlocks; p.passes = c.passes;
	std::vector<uint8_t> model; ref::argon2dFill(p, model);
	for (int im = 0; im < 3; ++im) {
		if (!implOf(im)) { vh::label(std::string("impl-unavailable:") + implName(im)); continue; }
		uint8_t* mem; if (posix_memalign((void**)&mem, 64, (size_t)c.mBlocks * 1024 + 64)) return "harness: alloc";
		memset(mem, 0xA7, (size_t)c.mBlocks * 1024 + 64);
		argon2_context ctx; memset(&ctx, 0, sizeof ctx);
		ctx.out = nullptr; ctx.outlen = 0; static uint8_t nonNull[1]; const bool nullPwd = c.pwd.empty() && (c.salt[0] & 1);   // the empty password is legal both as (NULL, 0) and as (non-NULL, 0)
		ctx.pwd = c.pwd.empty() ? (nullPwd ? nullptr : nonNull) : (uint8_t*)c.pwd.data(); ctx.pwdlen = (uint32_t)c.pwd.size(); ctx.salt = (uint8_t*)c.salt.data(); ctx.saltlen = (uint32_t)c.salt.size();
		ctx.t_cost = c.passes; ctx.m_cost = c.mBlocks; ctx.lanes = 1; ctx.threads = 1; ctx.flags = ARGON2_DEFAULT_FLAGS; ctx.version = ARGON2_VERSION_NUMBER;
		if (randomx_argon2_validate_inputs(&ctx) != ARGON2_OK) { free(mem); return "argon2 rejected parameters the cache initialisation shape allows"; }
		argon2_instance_t inst; memset(&inst, 0, sizeof inst);
		inst.version = ctx.version; inst.passes = ctx.t_cost; inst.memory_blocks = c.mBlocks; inst.segment_length = c.mBlocks / 4; inst.lane_length = inst.segment_length * 4; inst.lanes = 1; inst.threads = 1;
		inst.type = Argon2_d; inst.memory = (block*)mem; inst.impl = implOf(im);
		randomx_argon2_initialize(&inst, &ctx);
		randomx_argon2_fill_memory_blocks(&inst);
		std::string err;
		if (memcmp(mem, model.data(), model.size()) != 0) { size_t i = 0; while (mem[i] == model[i]) ++i; err = std::string("Argon2d fill (") + implName(im) + ") differs from RFC 9106 at byte " + std::to_string(i) + " (block " + std::to_string(i / 1024) + ")"; }
		for (int i = 0; i < 64 && err.empty(); ++i) if (mem[(size_t)c.mBlocks * 1024 + i] != 0xA7) err = std::string("Argon2d fill (") + implName(im) + ") wrote beyond the memory array";
		free(mem);
		if (!err.empty()) return err;
	}
	if (vh::st().replaying) return "";
	vh::label("pwd-len:" + std::string(c.pwd.empty() ? ((c.salt[0] & 1) ? "0(NULL pointer)" : "0(non-NULL pointer)") : c.pwd.size() <= 64 ? "1..64" : ">64")); vh::label("passes:" + std::to_string(c.passes)); vh::label(c.mBlocks <= 16 ? "m<=16" : c.mBlocks <= 256 ? "m<=256" : "m>256");
	vh::nontrivial(vh::fnv(c.pwd.data(), c.pwd.size(), vh::fnv(c.salt.data(), c.salt.size(), c.mBlocks * 8 + c.passes)));
	return "";
}

// ---- full-size caches through the public API --------------------------------------------------------------------------
struct FCase {
	std::vector<Bytes> keys;   // K1, K2 ; sequence K1 -> K2 -> K1 on one cache object per implementation
	std::string dump() const { vh::KVWriter w; w("n", (uint64_t)keys.size()); for (size_t i = 0; i < keys.size(); ++i) w("key" + std::to_string(i), vh::hex(keys[i].data(), keys[i].size())); return w.str(); }
	static FCase parse(const vh::KV& kv) { FCase c; size_t n = vh::getu(kv, "n"); for (size_t i = 0; i < n; ++i) c.keys.push_back(vh::unhex(vh::gets(kv, "key" + std::to_string(i)))); return c; }
};
static std::string full(const FCase& c) {
	static const char salt[] = "RandomX\x03";
	std::vector<std::vector<uint8_t>> model(c.keys.size());
	for (size_t k = 0; k < c.keys.size(); ++k) {
		ref::Argon2Params p; p.password = c.keys[k]; p.salt.assign((const uint8_t*)salt, (const uint8_t*)salt + 8); p.lanes = 1; p.tagLength = 0; p.memoryKiB = 262144; p.passes = 3;
		ref::argon2dFill(p, model[k]);
	}
	static const randomx_flags fl[3] = {RANDOMX_FLAG_DEFAULT, RANDOMX_FLAG_ARGON2_SSSE3, RANDOMX_FLAG_ARGON2_AVX2};
	for (int im = 0; im < 3; ++im) {
		randomx_cache* cache = randomx_alloc_cache(fl[im]);
		if (!cache) { vh::label(std::string("impl-unavailable:") + implName(im)); continue; }
		std::string err;
		std::vector<size_t> seq; for (size_t k = 0; k < c.keys.size(); ++k) seq.push_back(k);
		if (c.keys.size() > 1) seq.push_back(0);          // K1 -> K2 -> K1
		for (size_t s = 0; s < seq.size() && err.empty(); ++s) {
			size_t k = seq[s];
			static const uint8_t nonNull[1] = {0};
			const bool nullKey = c.keys[k].empty() && (c.keys[0].size() & 1);   // the empty key is legal both as (NULL, 0) and as (non-NULL, 0)
			randomx_init_cache(cache, c.keys[k].empty() ? (nullKey ? nullptr : nonNull) : c.keys[k].data(), c.keys[k].size());
			const uint8_t* mem = (const uint8_t*)randomx_get_cache_memory(cache);
			if (memcmp(mem, model[k].data(), model[k].size()) != 0) {
				size_t i = 0; while (mem[i] == model[k][i]) ++i;
				err = std::string("cache (") + implName(im) + ") after step " + std::to_string(s) + " of the key sequence differs from Argon2d_fill(key) at byte " + std::to_string(i) + (s > 0 ? " (re-keyed cache)" : "");
			}
			if (s > 0) vh::label("re-keyed-cache-compared");
		}
		randomx_release_cache(cache);
		if (!err.empty()) return err;
	}
	if (vh::st().replaying) return "";
	for (auto& k : c.keys) { vh::label("key-len:" + std::string(k.empty() ? ((c.keys[0].size() & 1) ? "0(NULL pointer)" : "0(non-NULL pointer)") : k.size() <= 60 ? "1..60" : k.size() <= 64 ? "61..64" : ">64")); vh::nontrivial(vh::fnv(k.data(), k.size(), 10)); }
	return "";
}

int main(int argc, char** argv) {
	using namespace rc;
	vh::registerCheck<RCase>("reduced", [] {
		return gen::resize(100, gen::apply([](Bytes pwd, Bytes salt, int k, int t) { return RCase{pwd, salt, (uint32_t)(4 * k), (uint32_t)t}; },
			vg::genBytesLen(vg::genLenBiased({0, 1, 12, 60, 63, 64, 65, 127, 128, 129, 300}, 96)), vg::genBytesLen(gen::inRange(8, 33)),
			gen::oneOf(gen::element(2, 3, 4, 8, 16, 64, 512), gen::inRange(2, 65)), gen::inRange(1, 5)));
	}, reduced);
	vh::registerCheck<FCase>("full", [] {
		return gen::resize(100, gen::apply([](Bytes a, Bytes b) { FCase c; c.keys = {a, b, Bytes()}; return c; }   /* K1 -> K2 -> empty key -> K1 */, vg::genKey(), vg::genKey()));
	}, full, true);
	return vh::harnessMain(argc, argv);
}
