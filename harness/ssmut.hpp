// Boundary-immediate substitution in the SuperscalarHash programs of a cache object (C19/C20 dataset sub-checks; C09 does the same on
// program copies). Immediates of IADD_C*/IXOR_C* are free 32-bit draws of the key-seeded generator, IROR_C counts are drawn from 1..63 and
// IMUL_RCP divisors are any value that is neither zero nor a power of two - all independent of the instruction sequence - so the substituted
// programs are still programs a key can produce, while immediate-encoding corners of a code generator (imm8/imm12 forms, lui/addi or
// movz/movn/movk splits, sign extension) have probability ~2^-17..2^-24 per instruction from random keys.
// The interpreter reference (initDatasetItem / InterpretedLightVm) reads the same cache object, so both sides see the same programs.
#pragma once
#include "dataset.hpp"
#include "superscalar.hpp"
#include "reciprocal.h"
#include "harness/vh.hpp"

namespace ssmut {
struct Saved { randomx::SuperscalarProgram programs[RANDOMX_CACHE_ACCESSES]; std::vector<uint64_t> rcp; bool have = false; uint64_t applied = 0; uint64_t substituted = 0; };
inline Saved& saved() { static Saved s; return s; }

// makes cache->programs the pure function (original programs, mutSeed); returns true if they changed (code must be regenerated)
inline bool apply(randomx_cache* cache, uint64_t mutSeed) {
	using randomx::SuperscalarInstructionType;
	Saved& S = saved();
	if (!S.have) { for (int i = 0; i < RANDOMX_CACHE_ACCESSES; ++i) S.programs[i] = cache->programs[i]; S.rcp = cache->reciprocalCache; S.have = true; }
	if (S.applied == mutSeed) return false;
	for (int i = 0; i < RANDOMX_CACHE_ACCESSES; ++i) cache->programs[i] = S.programs[i];
	cache->reciprocalCache = S.rcp;
	S.substituted = 0;
	if (mutSeed) {
		static const uint32_t IMMS[] = {0, 1, 0x7f, 0x80, 0x81, 0xff, 0x100, 0x7ff, 0x800, 0x801, 0xfff, 0x1000, 0x7fff, 0x8000, 0xffff, 0x10000, 0x7ffff800u, 0x7fffffffu, 0x80000000u, 0x80000001u, 0x80000800u,
			0xfffff000u, 0xfffff7ffu, 0xfffff800u, 0xfffff801u, 0xffffff00u, 0xffffff7fu, 0xffffff80u, 0xffffff81u, 0xffffffffu, 0xffff0000u, 0xffff8000u, 0xabcd0000u, 0x8000ffffu, 0x0000abcdu, 0xabcdffffu};
		static const uint32_t DIVS[] = {3, 5, 7, 0xffffffffu, 0x80000001u, 0x7fffffffu, 0xfffffffeu, 0x10001u, 0xffffu, 6, 0xc0000000u, 0xaaaaaaabu};
		static const uint32_t ROTS[] = {1, 7, 8, 31, 32, 33, 63};
		vh::XorShift x(mutSeed);
		for (int i = 0; i < RANDOMX_CACHE_ACCESSES; ++i) for (unsigned k = 0; k < cache->programs[i].getSize(); ++k) {
			randomx::Instruction& in = cache->programs[i](k);
			if (x.next() % 3) continue;
			switch ((SuperscalarInstructionType)in.opcode) {
			case SuperscalarInstructionType::IADD_C7: case SuperscalarInstructionType::IADD_C8: case SuperscalarInstructionType::IADD_C9:
			case SuperscalarInstructionType::IXOR_C7: case SuperscalarInstructionType::IXOR_C8: case SuperscalarInstructionType::IXOR_C9:
				in.setImm32((x.next() & 3) ? IMMS[x.next() % (sizeof IMMS / sizeof IMMS[0])] : (uint32_t)x.next() & 0xffff0000u); ++S.substituted; break;
			case SuperscalarInstructionType::IROR_C: in.setImm32(ROTS[x.next() % 7]); ++S.substituted; break;
			case SuperscalarInstructionType::IMUL_RCP: cache->reciprocalCache[in.getImm32()] = randomx_reciprocal(DIVS[x.next() % (sizeof DIVS / sizeof DIVS[0])]); ++S.substituted; break;
			default: break;
			}
		}
	}
	S.applied = mutSeed;
	return true;
}
} // namespace ssmut
