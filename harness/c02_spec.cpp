// C02 - the hash equals the value defined by the written specification.
// Oracle: model/ref_randomx (independent executable reading of specs.md, anchored to the 10 published digests).
// Stage "spec" (rel build): impl (light JIT and light interpreter) == model; writes the digests to the aux file.
// Stage "builds" (chk / asan builds, separate processes): the same cases must give the same digests.
#include "harness/vh.hpp"
#include "gen/gens.hpp"
#include "randomx.h"
#include "dataset.hpp"
#include "superscalar.hpp"
#ifdef WITH_MODEL
#include "ref_randomx.hpp"
#include "ref_blake2b.hpp"
#endif

using Bytes = std::vector<uint8_t>;

struct HCase {
	Bytes key; std::vector<Bytes> inputs; std::vector<int> versions;
	std::string dump() const {
		vh::KVWriter w; w("key", vh::hex(key.data(), key.size()))("n", (uint64_t)inputs.size());
		for (size_t i = 0; i < inputs.size(); ++i) { w("input" + std::to_string(i), vh::hex(inputs[i].data(), inputs[i].size())); w("version" + std::to_string(i), (uint64_t)versions[i]); }
		return w.str();
	}
	static HCase parse(const vh::KV& kv) {
		HCase c; c.key = vh::unhex(vh::gets(kv, "key")); size_t n = vh::getu(kv, "n");
		for (size_t i = 0; i < n; ++i) { c.inputs.push_back(vh::unhex(vh::gets(kv, "input" + std::to_string(i)))); c.versions.push_back((int)vh::getu(kv, "version" + std::to_string(i), 1)); }
		return c;
	}
};

static randomx_cache* g_cache = nullptr;
static std::string keyClass(size_t n) { return n == 0 ? "0" : n < 60 ? "1..59" : n == 60 ? "60" : "61+"; }

#ifdef WITH_MODEL
static std::string diagnose(const HCase& c, const ref::RxCache& rc) {
	// where does the implementation leave the specification?
	const uint8_t* mem = (const uint8_t*)randomx_get_cache_memory(g_cache);
	if (memcmp(mem, rc.memory.data(), rc.memory.size()) != 0) { size_t i = 0; while (mem[i] == rc.memory[i]) ++i; return " [cache differs from Argon2d fill at byte " + std::to_string(i) + "]"; }
	for (int p = 0; p < 8; ++p) {
		auto& ip = g_cache->programs[p]; auto& mp = rc.programs[p];
		if (ip.getSize() != mp.ins.size()) return " [SuperscalarHash program " + std::to_string(p) + " has " + std::to_string(ip.getSize()) + " instructions, model " + std::to_string(mp.ins.size()) + "]";
		if (ip.getAddressRegister() != mp.addressReg) return " [SuperscalarHash program " + std::to_string(p) + " address register differs]";
	}
	for (uint64_t item : {0ull, 1ull, 12345678ull, 34078718ull}) {
		uint64_t a[8], b[8]; randomx::initDatasetItem(g_cache, (uint8_t*)a, item); ref::datasetItem(rc.memory.data(), rc.memory.size() / 64, rc.programs, item, b);
		if (memcmp(a, b, 64) != 0) return " [dataset item " + std::to_string(item) + " differs]";
	}
	return " [cache, SuperscalarHash programs and sampled dataset items agree: the difference is in the hash driver / VM]";
}
#endif

static std::string body(const HCase& c) {
	if (!g_cache) g_cache = randomx_alloc_cache(RANDOMX_FLAG_JIT);
	randomx_init_cache(g_cache, c.key.data(), c.key.size());
#ifdef WITH_MODEL
	ref::RxCache rc = ref::buildCache(c.key.data(), c.key.size());
#endif
	FILE* aux = nullptr;
	auto& S = vh::st();
	if (!S.aux.empty() && !S.replaying) {
#ifdef WITH_MODEL
		aux = fopen((S.aux + ".w" + std::to_string(S.worker)).c_str(), "a");
#endif
	}
	std::string err;
	for (size_t i = 0; i < c.inputs.size() && err.empty(); ++i) {
		int vflag = c.versions[i] == 2 ? RANDOMX_FLAG_V2 : 0;
		uint8_t dj[32], di[32];
		randomx_vm* vj = randomx_create_vm((randomx_flags)(RANDOMX_FLAG_JIT | vflag), g_cache, nullptr);
		randomx_calculate_hash(vj, c.inputs[i].data(), c.inputs[i].size(), dj);
		randomx_destroy_vm(vj);
		bool alsoInterp = (i < 2);   // the interpreter is 6x slower: two inputs per key (one per version)
		if (alsoInterp) {
			randomx_vm* vi = randomx_create_vm((randomx_flags)vflag, g_cache, nullptr);
			randomx_calculate_hash(vi, c.inputs[i].data(), c.inputs[i].size(), di);
			randomx_destroy_vm(vi);
		}
#ifdef WITH_MODEL
		uint8_t dm[32];
		ref::randomxHash(rc, c.inputs[i].data(), c.inputs[i].size(), c.versions[i], dm);
		if (memcmp(dj, dm, 32) != 0) err = "light JIT digest " + vh::hex(dj, 32) + " != specification " + vh::hex(dm, 32) + " for input " + std::to_string(i) + " (v" + std::to_string(c.versions[i]) + ")" + diagnose(c, rc);
		else if (alsoInterp && memcmp(di, dm, 32) != 0) err = "light interpreter digest " + vh::hex(di, 32) + " != specification " + vh::hex(dm, 32) + " for input " + std::to_string(i) + diagnose(c, rc);
		if (aux) fprintf(aux, "%s %s %d %s\n", c.key.empty() ? "-" : vh::hex(c.key.data(), c.key.size()).c_str(), c.inputs[i].empty() ? "-" : vh::hex(c.inputs[i].data(), c.inputs[i].size()).c_str(), c.versions[i], vh::hex(dm, 32).c_str());
#else
		(void)di;
#endif
		if (!S.replaying) {
			vh::label("key-len:" + keyClass(c.key.size())); vh::label("input-len:" + vg::lenClass(c.inputs[i].size())); vh::label(c.versions[i] == 2 ? "v2" : "v1");
			vh::nontrivial(vh::fnv(c.key.data(), c.key.size(), vh::fnv(c.inputs[i].data(), c.inputs[i].size(), c.versions[i])));
		}
	}
	if (aux) fclose(aux);
	return err;
}

// cross-build stage: digests recorded by the spec stage must be reproduced by this build, in this process
struct XCase {
	Bytes key; Bytes input; int version; std::string digest;
	std::string dump() const { return vh::KVWriter()("key", vh::hex(key.data(), key.size()))("input", vh::hex(input.data(), input.size()))("version", (uint64_t)version)("digest", digest).str(); }
	static XCase parse(const vh::KV& kv) { XCase c; c.key = vh::unhex(vh::gets(kv, "key")); c.input = vh::unhex(vh::gets(kv, "input")); c.version = (int)vh::getu(kv, "version"); c.digest = vh::gets(kv, "digest"); return c; }
};
static std::string xbody(const XCase& c) {
	if (!g_cache) g_cache = randomx_alloc_cache(RANDOMX_FLAG_JIT);
	randomx_init_cache(g_cache, c.key.data(), c.key.size());
	uint8_t d[32];
	for (int jit = 1; jit >= 0; --jit) {
		randomx_vm* vm = randomx_create_vm((randomx_flags)((jit ? RANDOMX_FLAG_JIT : 0) | (c.version == 2 ? RANDOMX_FLAG_V2 : 0)), g_cache, nullptr);
		randomx_calculate_hash(vm, c.input.data(), c.input.size(), d);
		randomx_destroy_vm(vm);
		if (vh::hex(d, 32) != c.digest) return std::string("this build / process computes ") + vh::hex(d, 32) + (jit ? " (JIT)" : " (interpreter)") + " but the specification digest is " + c.digest;
	}
	return "";
}
static bool crossBuild(int, int, uint64_t) {
	auto& S = vh::st();
	S.curSub = "xbuild"; S.subs["xbuild"] = {0, true};
	std::vector<XCase> all;
	for (int w = 0; w < 64; ++w) {
		FILE* f = fopen((S.aux + ".w" + std::to_string(w)).c_str(), "r");
		if (!f) continue;
		char* line = nullptr; size_t cap = 0;
		while (getline(&line, &cap, f) > 0) {
			std::stringstream ss(line); std::string k, in, d; int v;
			if (ss >> k >> in >> v >> d) all.push_back(XCase{k == "-" ? Bytes() : vh::unhex(k), in == "-" ? Bytes() : vh::unhex(in), v, d});
		}
		free(line); fclose(f);
	}
	std::stable_sort(all.begin(), all.end(), [](const XCase& a, const XCase& b) { return a.key < b.key; });
	bool ok = true;
	// keys are distributed over workers so that a key is initialised once per worker
	std::vector<Bytes> keys; for (auto& c : all) if (keys.empty() || keys.back() != c.key) keys.push_back(c.key);
	for (size_t i = 0; i < all.size(); ++i) {
		size_t ki = std::lower_bound(keys.begin(), keys.end(), all[i].key) - keys.begin();
		if ((int)(ki % S.nworkers) != S.worker) continue;
		S.evaluations++; S.subs["xbuild"].first++;
		std::string why = xbody(all[i]);
		vh::label("cross-build-digests-compared");
		vh::nontrivial(vh::fnv(all[i].digest.data(), all[i].digest.size()));
		if (S.samples.size() < 2) vh::sample("[xbuild] " + all[i].dump());
		if (!why.empty()) {
			char fn[512]; snprintf(fn, sizeof fn, "%s/%s-xbuild-%zu.txt", S.replayDir.c_str(), S.prop.c_str(), i);
			FILE* f = fopen(fn, "w"); if (f) { fprintf(f, "sub=xbuild\n%s", all[i].dump().c_str()); fclose(f); }
			S.failures.push_back({fn, "[xbuild] " + why}); S.subs["xbuild"].second = false; ok = false; break;
		}
	}
	return ok;
}

int main(int argc, char** argv) {
	using namespace rc;
	vh::registerCheck<HCase>("spec", [] {
		return gen::resize(100, gen::apply([](Bytes key, std::vector<Bytes> in, std::vector<int> vs) {
			HCase c; c.key = key; c.inputs = in; for (size_t i = 0; i < in.size(); ++i) c.versions.push_back(1 + ((vs[i % vs.size()] + (int)i) & 1)); return c;
		}, vg::genKey(), gen::container<std::vector<Bytes>>(10, vg::genInput()), gen::container<std::vector<int>>(10, gen::inRange(0, 2))));
	}, body, true);
	vh::Sub s; s.name = "xbuild"; s.runGen = crossBuild;
	s.runReplay = [](const vh::KV& kv) -> std::string { return xbody(XCase::parse(kv)); };
	vh::registry().push_back(s);
	return vh::harnessMain(argc, argv);
}
