// Execution environment shared by the program-level harnesses (C04/C06/C07/C18-noop/C13...):
// program injection (DESIGN 4.3), synthetic dataset, VM pool, scratchpad classes, MXCSR helpers.
#pragma once
#include "harness/vh.hpp"
#include "randomx.h"
#include "dataset.hpp"
#include "virtual_machine.hpp"
#include "program.hpp"
#include "common.hpp"
#include <sys/mman.h>
#include <xmmintrin.h>
#include <unistd.h>
#include <map>

#ifndef MFD_CLOEXEC
#define MFD_CLOEXEC 1
#endif
extern "C" int memfd_create(const char*, unsigned int);

namespace rxe {

// ---- program injection: linked with --wrap=_Z11fillAes4Rx4ILb{0,1}EEvPvmS0_ ---------------------
struct Inject { const uint8_t* bytes = nullptr; size_t calls = 0; };
inline Inject& inject() { static thread_local Inject i; return i; }

} // namespace rxe

extern "C" {
void __real__Z11fillAes4Rx4ILb0EEvPvmS0_(void* state, size_t outputSize, void* buffer);
void __real__Z11fillAes4Rx4ILb1EEvPvmS0_(void* state, size_t outputSize, void* buffer);
#ifdef RXENV_DEFINE_WRAPPERS
void __wrap__Z11fillAes4Rx4ILb0EEvPvmS0_(void* state, size_t outputSize, void* buffer) {
	auto& i = rxe::inject();
	if (i.bytes) { memcpy(buffer, i.bytes, outputSize); i.calls++; }
	else __real__Z11fillAes4Rx4ILb0EEvPvmS0_(state, outputSize, buffer);
}
void __wrap__Z11fillAes4Rx4ILb1EEvPvmS0_(void* state, size_t outputSize, void* buffer) {
	auto& i = rxe::inject();
	if (i.bytes) { memcpy(buffer, i.bytes, outputSize); i.calls++; }
	else __real__Z11fillAes4Rx4ILb1EEvPvmS0_(state, outputSize, buffer);
}
#endif
}

namespace rxe {

constexpr size_t ProgramBytes = 128 + 8 * RANDOMX_PROGRAM_MAX_SIZE;   // 3200
static_assert(sizeof(randomx::Program) == ProgramBytes, "program layout");

inline uint32_t getcsr() { return _mm_getcsr(); }
inline void setcsr(uint32_t v) { _mm_setcsr(v); }
constexpr uint32_t MXCSR_RX = 0x9FC0;          // the state RandomX programs run under (FTZ, DAZ, all masked)
constexpr uint32_t MXCSR_CTRL_MASK = 0xFFC0;   // control bits (everything but the 6 sticky exception flags)

// ---- synthetic dataset: DatasetSize bytes ending exactly at a PROT_NONE page (C04 fast mode, C06) ----
struct SynthDataset {
	uint8_t* map = nullptr; size_t mapLen = 0;
	randomx_dataset ds;
	uint8_t* begin() const { return ds.memory; }
	void create(uint64_t seed) {
		const size_t chunk = 64u << 20;
		const size_t need = (size_t)randomx::DatasetSize;
		size_t pages = (need + 4095) / 4096 * 4096;
		mapLen = pages + 2 * 4096;
		map = (uint8_t*)mmap(nullptr, mapLen, PROT_NONE, MAP_PRIVATE | MAP_ANONYMOUS | MAP_NORESERVE, -1, 0);
		if (map == MAP_FAILED) { perror("mmap synth dataset"); abort(); }
		int fd = memfd_create("rxsynth", MFD_CLOEXEC);
		if (fd < 0 || ftruncate(fd, chunk) != 0) { perror("memfd"); abort(); }
		uint8_t* w = (uint8_t*)mmap(nullptr, chunk, PROT_READ | PROT_WRITE, MAP_SHARED, fd, 0);
		vh::XorShift x(seed); x.fill(w, chunk);
		munmap(w, chunk);
		uint8_t* base = map + 4096;
		for (size_t off = 0; off < pages; off += chunk) {
			size_t len = std::min(chunk, pages - off);
			if (mmap(base + off, len, PROT_READ, MAP_SHARED | MAP_FIXED, fd, 0) == MAP_FAILED) { perror("mmap chunk"); abort(); }
		}
		close(fd);
		// place the dataset so that its last byte is the last byte before the trailing PROT_NONE page
		ds.memory = base + (pages - need);
		ds.dealloc = nullptr;
	}
};

// ---- scratchpad classes ------------------------------------------------------------------------------
inline void fillScratchpad(uint8_t* sp, int cls, uint64_t seed) {
	const size_t n = RANDOMX_SCRATCHPAD_L3;
	vh::XorShift x(seed);
	switch (cls) {
	case 0: x.fill(sp, n); break;
	case 1: memset(sp, 0, n); break;
	case 2: memset(sp, 0xff, n); break;
	case 3: { // int32 extremes: FP conversion corners
		static const uint32_t ext[8] = {0x80000000u, 0x7fffffffu, 0, 1, 0xffffffffu, 0x80000001u, 0x7ffffffeu, 2};
		for (size_t i = 0; i < n; i += 4) { uint32_t v = ext[x.next() & 7]; memcpy(sp + i, &v, 4); }
		break;
	}
	default: { // small ints
		for (size_t i = 0; i < n; i += 8) { uint64_t v = x.next() & 0xff; if (x.next() & 1) v = (uint64_t)(-(int64_t)v); memcpy(sp + i, &v, 8); }
		break;
	}
	}
}

// ---- VM pool -----------------------------------------------------------------------------------------
struct Env {
	randomx_cache* cache = nullptr;
	SynthDataset synth;
	bool haveSynth = false;
	std::map<int, randomx_vm*> vms;
	std::function<void(int, randomx_vm*)> onCreate;
	void init(bool withSynth, const char* key = "verif program-level key") {
		cache = randomx_alloc_cache(RANDOMX_FLAG_DEFAULT);
		if (!cache) { fprintf(stderr, "cache alloc failed\n"); abort(); }
		randomx_init_cache(cache, key, strlen(key));
		if (withSynth) { synth.create(0xD5); haveSynth = true; }
	}
	// flags: any of JIT, SECURE, HARD_AES, FULL_MEM, V2
	randomx_vm* vm(int flags) {
		auto it = vms.find(flags);
		if (it != vms.end()) return it->second;
		randomx_vm* v = (flags & RANDOMX_FLAG_FULL_MEM) ? randomx_create_vm((randomx_flags)flags, nullptr, &synth.ds)
		                                               : randomx_create_vm((randomx_flags)flags, cache, nullptr);
		if (!v) { fprintf(stderr, "vm creation failed for flags %d\n", flags); abort(); }
		vms[flags] = v;
		if (onCreate) onCreate(flags, v);
		return v;
	}
	void destroyVms() { for (auto& kv : vms) randomx_destroy_vm(kv.second); vms.clear(); }
};

struct RunOut { randomx::RegisterFile reg; uint32_t mxcsr; };

// runs the injected program through the VM's real run(): programming, (secure toggling,) code generation, execution
inline RunOut runInjected(randomx_vm* vm, const uint8_t* prog, int spadClass, uint64_t spadSeed, int fprc) {
	uint8_t* sp = (uint8_t*)vm->getScratchpad();
	fillScratchpad(sp, spadClass, spadSeed);
	alignas(16) uint64_t seed[8] = {0};
	uint32_t saved = getcsr();
	setcsr(MXCSR_RX | ((uint32_t)(fprc & 3) << 13));
	inject().bytes = prog;
	vm->run(seed);
	inject().bytes = nullptr;
	RunOut o;
	o.mxcsr = getcsr();
	setcsr(saved);
	memcpy(&o.reg, vm->getRegisterFile(), sizeof o.reg);
	return o;
}

} // namespace rxe
