// C08 - fast-mode dataset equals light-mode items, however it is initialised.
// Oracle: every requested item == initDatasetItem (light-mode path) == model/ref_superscalar datasetItem; everything outside the
// requested ranges is PROT_NONE or canary-filled, so a store outside the request faults or is seen.
#include "harness/vh.hpp"
#include "gen/gens.hpp"
#include "ref_randomx.hpp"
#include "randomx.h"
#include "dataset.hpp"
#include <sys/mman.h>
#include <thread>

using Bytes = std::vector<uint8_t>;
static const uint64_t N = randomx::DatasetSize / 64;

struct Call { uint64_t start, count; int thread; };
struct DCase {
	Bytes key; int jitCache; std::vector<Call> calls; int nthreads;
	std::string dump() const {
		vh::KVWriter w; w("key", vh::hex(key.data(), key.size()))("jitCache", (uint64_t)jitCache)("nthreads", (uint64_t)nthreads)("ncalls", (uint64_t)calls.size());
		for (size_t i = 0; i < calls.size(); ++i) w("call" + std::to_string(i), std::to_string(calls[i].start) + " " + std::to_string(calls[i].count) + " " + std::to_string(calls[i].thread));
		return w.str();
	}
	static DCase parse(const vh::KV& kv) {
		DCase c; c.key = vh::unhex(vh::gets(kv, "key")); c.jitCache = (int)vh::getu(kv, "jitCache"); c.nthreads = (int)vh::getu(kv, "nthreads", 1); size_t n = vh::getu(kv, "ncalls");
		for (size_t i = 0; i < n; ++i) { std::stringstream ss(vh::gets(kv, "call" + std::to_string(i))); Call k; ss >> k.start >> k.count >> k.thread; c.calls.push_back(k); }
		return c;
	}
};

struct World {
	Bytes key; bool have = false;
	randomx_cache* cache[2] = {nullptr, nullptr};   // [0] default (interpreted initialiser), [1] JIT (compiled initialiser)
	ref::RxCache model;
	uint8_t* region = nullptr; size_t regionLen = 0;
	randomx_dataset ds;
	void ensure(const Bytes& k) {
		if (have && k == key) return;
		if (!region) {
			regionLen = ((size_t)randomx::DatasetSize + 4095) / 4096 * 4096 + 8192;
			region = (uint8_t*)mmap(nullptr, regionLen, PROT_NONE, MAP_PRIVATE | MAP_ANONYMOUS | MAP_NORESERVE, -1, 0);
			// dataset placed so that its last byte is the last byte before a PROT_NONE page
			ds.memory = region + 4096 + (((size_t)randomx::DatasetSize + 4095) / 4096 * 4096 - (size_t)randomx::DatasetSize);
			ds.dealloc = nullptr;
			cache[0] = randomx_alloc_cache(RANDOMX_FLAG_DEFAULT); cache[1] = randomx_alloc_cache(RANDOMX_FLAG_JIT);
		}
		randomx_init_cache(cache[0], k.data(), k.size()); randomx_init_cache(cache[1], k.data(), k.size());
		model = ref::buildCache(k.data(), k.size());
		key = k; have = true;
	}
};
static World W;
static Bytes workerKey;

static std::string body(const DCase& c) {
	W.ensure(c.key);
	uint8_t* base = W.ds.memory;
	// open exactly the pages that overlap a requested range and fill them with a canary
	std::vector<std::pair<uintptr_t, uintptr_t>> pages;
	for (auto& k : c.calls) if (k.count) {
		uintptr_t lo = ((uintptr_t)(base + k.start * 64)) & ~4095ull, hi = (((uintptr_t)(base + (k.start + k.count) * 64)) + 4095) & ~4095ull;
		pages.emplace_back(lo, hi);
	}
	for (auto& p : pages) { mprotect((void*)p.first, p.second - p.first, PROT_READ | PROT_WRITE); }
	for (auto& p : pages) memset((void*)p.first, 0xCA, p.second - p.first);
	// run the calls on their threads
	randomx_cache* cache = W.cache[c.jitCache ? 1 : 0];
	std::vector<std::thread> th;
	for (int t = 0; t < c.nthreads; ++t) th.emplace_back([&, t] { for (auto& k : c.calls) if (k.thread == t) randomx_init_dataset(&W.ds, cache, k.start, k.count); });
	for (auto& t : th) t.join();
	// verify
	std::string err;
	std::vector<uint8_t> requested;   // per opened page byte map is too big: check per 64-byte item
	auto inRequest = [&](uint64_t item) { for (auto& k : c.calls) if (item >= k.start && item < k.start + k.count) return true; return false; };
	uint64_t checked = 0, modelChecked = 0, total = 0;
	for (auto& k : c.calls) total += k.count;
	for (auto& k : c.calls) {
		for (uint64_t i = k.start; i < k.start + k.count && err.empty(); ++i) {
			uint64_t light[8]; randomx::initDatasetItem(W.cache[0], (uint8_t*)light, i);
			if (memcmp(base + i * 64, light, 64) != 0) { err = "dataset item " + std::to_string(i) + " (call start=" + std::to_string(k.start) + " count=" + std::to_string(k.count) + ", " + (c.jitCache ? "compiled" : "interpreted") + " initialiser) differs from the light-mode item"; break; }
			++checked;
			bool sample = total <= 256 || i == k.start || i + 1 == k.start + k.count || ((i * 2654435761u) % 97) == 0;
			if (sample) { uint64_t m[8]; ref::datasetItem(W.model.memory.data(), W.model.memory.size() / 64, W.model.programs, i, m); ++modelChecked; if (memcmp(m, light, 64) != 0) { err = "dataset item " + std::to_string(i) + " differs from the specification's item construction"; break; } }
		}
	}
	if (err.empty()) for (auto& p : pages) {
		for (uintptr_t a = p.first; a < p.second && err.empty(); a += 64) {
			if (a < (uintptr_t)base) { for (int b = 0; b < 64; ++b) if (*(uint8_t*)(a + b) != 0xCA) err = "bytes in front of the dataset were written"; continue; }
			uint64_t item = (a - (uintptr_t)base) / 64;
			if (item >= N || !inRequest(item)) { size_t off = (a - (uintptr_t)base) % 64; for (size_t b = 0; b < 64 - off && a + b < p.second; ++b) if (*(uint8_t*)(a + b) != 0xCA) { err = "item " + std::to_string(item) + " outside the requested ranges was written"; break; } }
		}
	}
	for (auto& p : pages) { madvise((void*)p.first, p.second - p.first, MADV_DONTNEED); mprotect((void*)p.first, p.second - p.first, PROT_NONE); }
	if (!err.empty() || vh::st().replaying) return err;
	bool nt = false;
	for (auto& k : c.calls) {
		if (k.count == 0) { vh::label("count==0"); nt = true; }
		else if (k.count < 4) { vh::label("count<4(stack-buffer-path)"); nt = true; }
		else if (k.count % 4 == 0) { vh::label("count%4==0"); if (k.count > 4) nt = true; }
		else { vh::label("remainder+overlapping-tail"); nt = true; }
		if (k.count && k.start + k.count == N) { vh::label("touches-last-item"); nt = true; }
	}
	if (c.nthreads > 1) { vh::label("multi-thread"); nt = true; }
	vh::label(c.jitCache ? "initialiser:compiled" : "initialiser:interpreted");
	vh::label("items-compared-with-light", checked); vh::label("items-compared-with-model", modelChecked);
	if (nt) { uint64_t h = vh::fnv(c.key.data(), c.key.size(), c.jitCache); for (auto& k : c.calls) h = vh::mix(vh::mix(h, k.start), k.count * 16 + k.thread); vh::nontrivial(h); }
	return "";
}

static rc::Gen<DCase> genCase() {
	using namespace rc;
	// a window [s, s+len) is cut into consecutive calls at generated cut points; calls are dealt to threads
	auto lenGen = gen::resize(100, gen::oneOf(gen::inRange(0, 10), gen::map(gen::inRange(1, 200), [](int k) { return 4 * k; }), gen::map(gen::inRange(1, 200), [](int k) { return 4 * k + 1 + k % 3; }), gen::inRange(0, 4097), gen::map(gen::inRange(0, 40), [](int x) { return x == 0 ? 100000 : x == 1 ? 65539 : 16 + x; })));
	return gen::resize(100, gen::mapcat(lenGen, [](int len) {
		return gen::apply([len](int startKind, uint64_t r, std::vector<int> cuts, int nthreads, int jit, std::vector<int> deal) {
			DCase c; c.key = workerKey; c.jitCache = jit; c.nthreads = nthreads;
			uint64_t L = (uint64_t)len, s;
			switch (startKind) { case 0: s = 0; break; case 1: s = 1 + r % 3; break; case 2: s = N - L; break; case 3: s = L ? N - L - (r % 5) : N - 1; break; default: s = r % (N - L); break; }
			if (s + L > N) s = N - L;
			if (s >= N) s = N - 1;
			for (int& x : cuts) x = L ? x % (int)(L + 1) : 0;
			std::sort(cuts.begin(), cuts.end()); if (cuts.size() > 6) cuts.resize(6);
			cuts.push_back((int)L);
			uint64_t pos = 0; size_t i = 0;
			for (int cut : cuts) { uint64_t n = (uint64_t)cut - pos; int th = deal.empty() ? 0 : deal[i % deal.size()] % nthreads; c.calls.push_back(Call{s + pos, n, th}); pos = cut; ++i; }
			// a call must satisfy start < N (API precondition asserted by the library)
			for (auto& k : c.calls) if (k.start >= N) { k.start = N - 1; k.count = 0; }
			return c;
		}, gen::inRange(0, 6), gen::arbitrary<uint64_t>(), gen::container<std::vector<int>>(gen::inRange(0, 1 << 20)), gen::element(1, 1, 2, 3, 4, 8, 16), gen::inRange(0, 2), gen::container<std::vector<int>>(gen::inRange(0, 16)));
	}));
}

// thorough: two complete datasets (compiled / interpreted initialiser), random 16-thread partitions, compared byte for byte
static bool fullDatasets(int, int, uint64_t seed) {
	auto& S = vh::st();
	S.subs["full"] = {0, true};
	if (S.worker != 0) return true;
	W.ensure(workerKey);
	randomx_dataset* d[2] = {randomx_alloc_dataset(RANDOMX_FLAG_DEFAULT), randomx_alloc_dataset(RANDOMX_FLAG_DEFAULT)};
	if (!d[0] || !d[1]) { vh::label("full-dataset-alloc-failed(inconclusive)"); return true; }
	vh::XorShift x(seed);
	for (int which = 0; which < 2; ++which) {
		std::vector<uint64_t> cuts; for (int i = 0; i < 47; ++i) cuts.push_back(x.next() % N); cuts.push_back(0); cuts.push_back(N); std::sort(cuts.begin(), cuts.end());
		std::vector<std::thread> th;
		for (int t = 0; t < 16; ++t) th.emplace_back([&, t] { for (size_t i = t; i + 1 < cuts.size(); i += 16) if (cuts[i + 1] > cuts[i]) randomx_init_dataset(d[which], W.cache[which], cuts[i], cuts[i + 1] - cuts[i]); });
		for (auto& t : th) t.join();
	}
	bool ok = memcmp(randomx_get_dataset_memory(d[0]), randomx_get_dataset_memory(d[1]), (size_t)randomx::DatasetSize) == 0;
	// and spot-check against the model
	const uint8_t* m0 = (const uint8_t*)randomx_get_dataset_memory(d[0]);
	for (int i = 0; i < 4000 && ok; ++i) { uint64_t item = i < 4 ? (i < 2 ? i : N - 1 - (i - 2)) : x.next() % N; uint64_t m[8]; ref::datasetItem(W.model.memory.data(), W.model.memory.size() / 64, W.model.programs, item, m); if (memcmp(m, m0 + item * 64, 64) != 0) ok = false; }
	randomx_release_dataset(d[0]); randomx_release_dataset(d[1]);
	S.evaluations += 2; S.subs["full"] = {2, ok}; vh::label("full-datasets-compared", 2); vh::nontrivial(vh::mix(seed, 1)); vh::nontrivial(vh::mix(seed, 2));
	if (!ok) { char fn[512]; snprintf(fn, sizeof fn, "%s/%s-full-%llx.txt", S.replayDir.c_str(), S.prop.c_str(), (unsigned long long)seed); FILE* f = fopen(fn, "w"); if (f) { fprintf(f, "sub=full\nseed=%llu\nkey=%s\n", (unsigned long long)seed, vh::hex(workerKey.data(), workerKey.size()).c_str()); fclose(f); } S.failures.push_back({fn, "complete datasets from the compiled and the interpreted initialiser differ (or differ from the specification)"}); }
	return ok;
}

int main(int argc, char** argv) {
	vh::registerCheck<DCase>("ranges", genCase, body, true);
	vh::Sub s; s.name = "full"; s.runGen = fullDatasets;
	s.runReplay = [](const vh::KV& kv) -> std::string { workerKey = vh::unhex(vh::gets(kv, "key")); vh::st().worker = 0; return fullDatasets(0, 0, vh::getu(kv, "seed")) ? "" : "full datasets differ"; };
	vh::registry().push_back(s);
	return vh::harnessMain(argc, argv, [] {
		// one generated key per worker (key set = f(VERIF_SEED)); lengths cycle through 0, short, 60, > 60
		auto& S = vh::st(); vh::XorShift x(S.seed);
		static const int lens[] = {12, 0, 60, 75, 1, 32, 61, 200};
		workerKey.resize(lens[(S.seed >> 8) % 8]); x.fill(workerKey.data(), workerKey.size());
	});
}
