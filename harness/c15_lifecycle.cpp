// C15 - object lifecycle is leak- and crash-free, also when allocations fail.
// fault_enumeration: for each creating call x every supported flag combination x huge-page behaviour: count the N requests of a
// fault-free call, then fail exactly the k-th for k = 1..N (child process per plan). Generated: multi-fault / fault-free cycles.
#define FAULTALLOC_DEFINE_WRAPPERS
#include "interpose/faultalloc.hpp"
#include "harness/vh.hpp"
#include "gen/gens.hpp"
#include "randomx.h"
#include "dataset.hpp"
#include <sys/wait.h>
#include <array>

using Digest = std::array<uint8_t, 32>;
static randomx_cache* baseCache = nullptr;          // initialised before any fault, key longer than the SSO buffer so that the key copy allocates
static randomx_dataset synthDs;                      // contents irrelevant for allocation behaviour; fast-VM digests are compared against a fault-free fast VM over the same memory
static const char KEY[] = "C15 lifecycle key - longer than fifteen bytes";
static const char INPUT[] = "C15 input";
static const char INPUT2[] = "C15 second input of the batch";
static Digest lightDigest[2], fastDigest[2], lightDigest2[2], fastDigest2[2];         // [v2]

enum Call { ALLOC_CACHE, ALLOC_DATASET, CREATE_VM };
struct Plan { int call; int flags; int hugeMode; long k; };   // k = 0: fault-free
static const char* callName(int c) { return c == ALLOC_CACHE ? "randomx_alloc_cache" : c == ALLOC_DATASET ? "randomx_alloc_dataset" : "randomx_create_vm"; }

struct Snapshot { long blocks; size_t heap, mapped; };
static Snapshot snap() { Snapshot s; fa::totals(s.blocks, s.heap, s.mapped); return s; }
static bool same(const Snapshot& a, const Snapshot& b) { return a.blocks == b.blocks && a.heap == b.heap && a.mapped == b.mapped; }

static void* doCall(const Plan& p) {
	fa::st().hugeMode = p.hugeMode;
	fa::arm(p.k);
	void* r = nullptr;
	switch (p.call) {
	case ALLOC_CACHE: r = randomx_alloc_cache((randomx_flags)p.flags); break;
	case ALLOC_DATASET: r = randomx_alloc_dataset((randomx_flags)p.flags); break;
	default: r = (p.flags & RANDOMX_FLAG_FULL_MEM) ? randomx_create_vm((randomx_flags)p.flags, nullptr, &synthDs) : randomx_create_vm((randomx_flags)p.flags, baseCache, nullptr); break;
	}
	fa::disarm();
	return r;
}
static void undo(const Plan& p, void* r) {
	fa::st().counting = true;   // frees are tracked regardless; keep accounting of anything allocated during release
	switch (p.call) { case ALLOC_CACHE: randomx_release_cache((randomx_cache*)r); break; case ALLOC_DATASET: randomx_release_dataset((randomx_dataset*)r); break; default: randomx_destroy_vm((randomx_vm*)r); break; }
	fa::st().counting = false;
}
// "use" between creation and release: everything the library requests while the object is used (key copies on re-initialisation with
// keys of growing / shrinking length, code regenerated on rebinding, batch API state, dataset items) is recorded and must be given back
// by the release call - the success-path half of the property ("repeated create/use/destroy cycles do not grow the process")
static std::string useObject(const Plan& p, void* r) {
	std::string err;
	fa::st().counting = true;
	if (p.call == CREATE_VM) {
		randomx_vm* vm = (randomx_vm*)r;
		const bool v2 = p.flags & RANDOMX_FLAG_V2, fast = p.flags & RANDOMX_FLAG_FULL_MEM;
		Digest d, d2, d3;
		randomx_calculate_hash(vm, INPUT, sizeof INPUT - 1, d.data());
		for (int rep = 0; rep < 2; ++rep) { if (fast) randomx_vm_set_dataset(vm, &synthDs); else randomx_vm_set_cache(vm, baseCache); }   // rebinding (same object: documented as allowed)
		randomx_calculate_hash_first(vm, INPUT, sizeof INPUT - 1); randomx_calculate_hash_next(vm, INPUT2, sizeof INPUT2 - 1, d2.data()); randomx_calculate_hash_last(vm, d3.data());
		fa::st().counting = false;
		const Digest& exp = fast ? fastDigest[v2] : lightDigest[v2]; const Digest& exp2 = fast ? fastDigest2[v2] : lightDigest2[v2];
		if (d != exp || d2 != exp) err = "a VM created after the failed call hashes to a wrong digest";
		else if (d3 != exp2) err = "a VM created after the failed call gives a wrong digest for the second input of a batch";
	}
	else if (p.call == ALLOC_CACHE) {
		randomx_cache* c = (randomx_cache*)r;
		// keys of growing, equal and shrinking length (beyond and within the small-string size), ending with the reference key
		static const char* keys[] = {"k", "a considerably longer key: 0123456789 0123456789 0123456789 0123456789", KEY, KEY};   // growing, then shorter, then redundant
		for (const char* k : keys) randomx_init_cache(c, k, strlen(k));
		randomx_vm* vm = randomx_create_vm(RANDOMX_FLAG_JIT, c, nullptr);
		Digest d{}; bool created = vm != nullptr;
		if (vm) {
			randomx_calculate_hash(vm, INPUT, sizeof INPUT - 1, d.data());
			randomx_init_cache(c, "other", 5); randomx_vm_set_cache(vm, c); randomx_init_cache(c, KEY, sizeof KEY - 1); randomx_vm_set_cache(vm, c);   // re-key + rebind twice
			Digest e; randomx_calculate_hash(vm, INPUT, sizeof INPUT - 1, e.data()); if (e != d) d = Digest{};
			randomx_destroy_vm(vm);
		}
		fa::st().counting = false;
		if (!created) err = "VM creation over the new cache failed";
		else if (d != lightDigest[0]) err = "a cache allocated after the failed call gives a wrong digest";
	}
	else {
		randomx_dataset* ds = (randomx_dataset*)r;
		uint8_t* m = (uint8_t*)randomx_get_dataset_memory(ds);
		if (m) { randomx_init_dataset(ds, baseCache, 0, 9); randomx_init_dataset(ds, baseCache, randomx_dataset_item_count() - 3, 3); m[4096 * 5] = 1; }
		fa::st().counting = false;
		if (!m) err = "dataset memory is NULL";
	}
	return err;
}

// runs one plan in this process; returns "" if the property holds
static std::string runPlan(const Plan& p, long* requestsOut = nullptr) {
	Snapshot before = snap();
	void* r = doCall(p);
	long req = fa::st().requests;
	if (requestsOut) *requestsOut = req;
	std::string log = fa::st().log;
	std::string what = std::string(callName(p.call)) + "(flags=" + std::to_string(p.flags) + ", hugepages=" + (p.hugeMode == 0 ? "kernel" : p.hugeMode == 1 ? "available" : "unavailable") + ") requests[" + log + "]";
	if (p.k > 0 && fa::st().failed) {
		if (r != nullptr) { undo(p, r); return what + ": request " + std::to_string(p.k) + " failed but the call returned an object instead of NULL"; }
		Snapshot after = snap();
		if (!same(before, after)) return what + ": request " + std::to_string(p.k) + " (" + fa::st().failedKind + std::to_string(fa::st().failedSize) + ") failed, call returned NULL but leaked: live blocks " + std::to_string(before.blocks) + " -> " + std::to_string(after.blocks) + ", heap bytes " + std::to_string(before.heap) + " -> " + std::to_string(after.heap) + ", mapped bytes " + std::to_string(before.mapped) + " -> " + std::to_string(after.mapped);
		// the library must stay fully usable: the same call without faults now succeeds and works
		Plan q = p; q.k = 0; if (q.hugeMode == 2) q.hugeMode = 1;
		void* r2 = doCall(q);
		if (!r2) return what + ": after the failed call a fault-free call also returns NULL";
		std::string u = useObject(q, r2);
		undo(q, r2);
		if (!u.empty()) return what + ": " + u;
		if (!same(before, snap())) return what + ": fault-free create/use/release after the failed call does not return to the initial live set";
		return "";
	}
	// fault-free (or k beyond the last request)
	if (p.hugeMode == 2 && (p.flags & RANDOMX_FLAG_LARGE_PAGES)) {
		if (r != nullptr) { undo(p, r); return what + ": large pages unavailable but the call succeeded"; }
		if (!same(before, snap())) return what + ": large-page allocation failed, NULL returned, but memory leaked";
		return "";
	}
	if (!r) return what + ": fault-free call returned NULL";
	std::string u = useObject(p, r);
	undo(p, r);
	if (!u.empty()) return what + ": " + u;
	Snapshot after = snap();
	if (fa::st().shortUnmaps) return what + ": release unmapped fewer bytes than were mapped";
	if (!same(before, after)) return what + ": create/use/release leaks: live blocks " + std::to_string(before.blocks) + " -> " + std::to_string(after.blocks) + ", heap " + std::to_string(before.heap) + " -> " + std::to_string(after.heap) + ", mapped " + std::to_string(before.mapped) + " -> " + std::to_string(after.mapped);
	return "";
}

// child process per plan: a crash is attributed to exactly this plan
static std::string runPlanForked(const Plan& p, long* requestsOut) {
	int fds[2]; if (pipe(fds)) return "harness: pipe";
	pid_t pid = fork();
	if (pid == 0) {
		close(fds[0]); alarm(120);
		long req = 0; std::string w = runPlan(p, &req);
		std::string msg = std::to_string(req) + "\n" + w;
		(void)!write(fds[1], msg.data(), msg.size()); _exit(w.empty() ? 0 : 1);
	}
	close(fds[1]);
	std::string msg; char buf[4096]; ssize_t n; while ((n = read(fds[0], buf, sizeof buf)) > 0) msg.append(buf, n); close(fds[0]);
	int status = 0; waitpid(pid, &status, 0);
	if (WIFSIGNALED(status)) return std::string(callName(p.call)) + "(flags=" + std::to_string(p.flags) + ", hugeMode=" + std::to_string(p.hugeMode) + ") with request " + std::to_string(p.k) + " failing: abnormal termination by signal " + std::to_string(WTERMSIG(status));
	auto nl = msg.find('\n');
	if (requestsOut && nl != std::string::npos) *requestsOut = atol(msg.substr(0, nl).c_str());
	return nl == std::string::npos ? "harness: no report from child" : msg.substr(nl + 1);
}

static std::vector<Plan> allPlans() {
	std::vector<Plan> v;
	for (int jit = 0; jit < 2; ++jit) for (int lp = 0; lp < 3; ++lp) v.push_back({ALLOC_CACHE, (jit ? RANDOMX_FLAG_JIT : 0) | (lp ? RANDOMX_FLAG_LARGE_PAGES : 0), lp == 2 ? 2 : 1, 0});
	for (int lp = 0; lp < 3; ++lp) v.push_back({ALLOC_DATASET, lp ? RANDOMX_FLAG_LARGE_PAGES : 0, lp == 2 ? 2 : 1, 0});
	for (int eng = 0; eng < 3; ++eng) for (int aes = 0; aes < 2; ++aes) for (int mem = 0; mem < 2; ++mem) for (int lp = 0; lp < 3; ++lp) for (int v2 = 0; v2 < 2; ++v2)
		v.push_back({CREATE_VM, (eng ? RANDOMX_FLAG_JIT : 0) | (eng == 2 ? RANDOMX_FLAG_SECURE : 0) | (aes ? RANDOMX_FLAG_HARD_AES : 0) | (mem ? RANDOMX_FLAG_FULL_MEM : 0) | (lp ? RANDOMX_FLAG_LARGE_PAGES : 0) | (v2 ? RANDOMX_FLAG_V2 : 0), lp == 2 ? 2 : 1, 0});
	return v;
}

static bool enumerate(int, int, uint64_t) {
	auto& S = vh::st();
	S.subs["faults"] = {0, true};
	std::vector<Plan> base = allPlans();
	bool ok = true; uint64_t plans = 0, partial = 0;
	for (size_t i = 0; i < base.size() && ok; ++i) {
		if ((int)(i % S.nworkers) != S.worker) continue;
		long N = 0;
		std::string w = runPlanForked(base[i], &N);          // fault-free: counts the requests
		++plans;
		for (long k = 1; w.empty() && k <= N; ++k) { Plan p = base[i]; p.k = k; long dummy; w = runPlanForked(p, &dummy); ++plans; if (k > 1) { ++partial; vh::nontrivial(vh::mix(vh::mix(p.call * 4096 + p.flags, p.hugeMode), k)); } if (!w.empty()) { base[i] = p; } }
		vh::label(std::string("requests-in-") + callName(base[i].call) + "=" + std::to_string(N));
		if (S.samples.size() < 3) vh::sample("[faults] " + std::string(callName(base[i].call)) + " flags=" + std::to_string(base[i].flags) + " hugeMode=" + std::to_string(base[i].hugeMode) + " N=" + std::to_string(N) + " -> k=0.." + std::to_string(N) + " all explored");
		if (!w.empty()) {
			char fn[512]; snprintf(fn, sizeof fn, "%s/%s-faults-%d-%d-%d-%ld.txt", S.replayDir.c_str(), S.prop.c_str(), base[i].call, base[i].flags, base[i].hugeMode, base[i].k);
			FILE* f = fopen(fn, "w"); if (f) { fprintf(f, "sub=faults\ncall=%d\nflags=%d\nhugeMode=%d\nk=%ld\n", base[i].call, base[i].flags, base[i].hugeMode, base[i].k); fclose(f); }
			S.failures.push_back({fn, "[faults] " + w}); ok = false;
		}
	}
	S.evaluations += plans; S.subs["faults"] = {plans, ok}; vh::label("fault-plans", plans); vh::label("plans-failing-a-later-request(partial-construction)", partial);
	return ok;
}

// generated create/use/release cycles with generated (multi-)faults
struct CyCase {
	std::vector<std::array<int, 3>> steps;   // (plan index, k or 0, repeat)
	std::string dump() const { vh::KVWriter w; w("n", (uint64_t)steps.size()); for (size_t i = 0; i < steps.size(); ++i) w("step" + std::to_string(i), std::to_string(steps[i][0]) + " " + std::to_string(steps[i][1]) + " " + std::to_string(steps[i][2])); return w.str(); }
	static CyCase parse(const vh::KV& kv) { CyCase c; for (size_t i = 0; i < vh::getu(kv, "n"); ++i) { std::stringstream ss(vh::gets(kv, "step" + std::to_string(i))); std::array<int, 3> a{}; ss >> a[0] >> a[1] >> a[2]; c.steps.push_back(a); } return c; }
};
static std::string cycles(const CyCase& c) {
	static std::vector<Plan> base = allPlans();
	Snapshot start = snap();
	int faults = 0;
	for (auto& s : c.steps) {
		Plan p = base[(size_t)s[0] % base.size()]; p.k = s[1];
		for (int r = 0; r <= s[2] % 3; ++r) { std::string w = runPlan(p); if (!w.empty()) return w; }
		if (p.k) ++faults;
	}
	if (!same(start, snap())) return "live set after the whole sequence differs from the start";
	if (vh::st().replaying) return "";
	vh::label("cycle-steps", c.steps.size()); vh::label("cycle-faults", faults);
	if (faults >= 2) vh::nontrivial(vh::fnv(c.steps.data(), c.steps.size() * sizeof(c.steps[0])));
	return "";
}

int main(int argc, char** argv) {
	using namespace rc;
	vh::Sub s; s.name = "faults"; s.runGen = enumerate;
	s.runReplay = [](const vh::KV& kv) -> std::string { Plan p{(int)vh::getu(kv, "call"), (int)vh::getu(kv, "flags"), (int)vh::getu(kv, "hugeMode"), (long)vh::getu(kv, "k")}; long n; return runPlanForked(p, &n); };
	vh::registry().push_back(s);
	vh::registerCheck<CyCase>("cycles", [] {
		return gen::resize(100, gen::map(gen::container<std::vector<std::tuple<int, int, int>>>(gen::tuple(gen::inRange(0, 1000), gen::inRange(0, 7), gen::inRange(0, 3))), [](std::vector<std::tuple<int, int, int>> v) {
			CyCase c; if (v.size() > 12) v.resize(12); for (auto& t : v) c.steps.push_back({std::get<0>(t), std::get<1>(t), std::get<2>(t)}); return c; }));
	}, cycles, true, nullptr, 6);
	return vh::harnessMain(argc, argv, [] {
		baseCache = randomx_alloc_cache(RANDOMX_FLAG_JIT); randomx_init_cache(baseCache, KEY, sizeof KEY - 1);
		size_t len = ((size_t)randomx::DatasetSize + 4095) / 4096 * 4096;
		synthDs.memory = (uint8_t*)::syscall(SYS_mmap, nullptr, len, PROT_READ | PROT_WRITE, MAP_PRIVATE | MAP_ANONYMOUS | MAP_NORESERVE, -1, 0); synthDs.dealloc = nullptr;
		for (int v2 = 0; v2 < 2; ++v2) {
			randomx_vm* l = randomx_create_vm((randomx_flags)(RANDOMX_FLAG_JIT | (v2 ? RANDOMX_FLAG_V2 : 0)), baseCache, nullptr); randomx_calculate_hash(l, INPUT, sizeof INPUT - 1, lightDigest[v2].data()); randomx_calculate_hash(l, INPUT2, sizeof INPUT2 - 1, lightDigest2[v2].data()); randomx_destroy_vm(l);
			randomx_vm* f = randomx_create_vm((randomx_flags)(RANDOMX_FLAG_JIT | RANDOMX_FLAG_FULL_MEM | (v2 ? RANDOMX_FLAG_V2 : 0)), nullptr, &synthDs); randomx_calculate_hash(f, INPUT, sizeof INPUT - 1, fastDigest[v2].data()); randomx_calculate_hash(f, INPUT2, sizeof INPUT2 - 1, fastDigest2[v2].data()); randomx_destroy_vm(f);
		}
	});
}
