// W^X oracle (DESIGN.md 4.2 / C16): link with --wrap=mmap,--wrap=munmap,--wrap=mprotect.
// Every mapping / protection change the library requests is logged; a region that is writable and executable at the same
// time is a violation, whichever call produced it. /proc/self/maps is read as an independent cross-check, restricted to the
// ranges the log attributes to the library (the process has an executable stack because jit_compiler_x86_static.S lacks a
// .note.GNU-stack section; that is W+X memory but not a code buffer the library owns).
#pragma once
#include <sys/mman.h>
#include <cstdint>
#include <cstdio>
#include <cstring>
#include <string>
#include <vector>
#include <mutex>

namespace protlog {
struct Region { uintptr_t lo, hi; int prot; };
struct State {
	std::mutex mu;
	std::vector<Region> regions;
	std::vector<std::string> wx;      // violations observed at the moment they happened
	uint64_t mmaps = 0, mprotects = 0, munmaps = 0, execRegions = 0, rwPhases = 0, rxPhases = 0;
};
inline State& st() { static State s; return s; }
inline bool& paused() { static bool p = false; return p; }   // set while the harness' own oracle objects (not part of the history) are used
inline const char* protStr(int p) { static thread_local char b[4]; b[0] = p & PROT_READ ? 'r' : '-'; b[1] = p & PROT_WRITE ? 'w' : '-'; b[2] = p & PROT_EXEC ? 'x' : '-'; b[3] = 0; return b; }

inline std::string checkNoWX(const std::string& where) {
	State& S = st();
	std::lock_guard<std::mutex> g(S.mu);
	if (!S.wx.empty()) { std::string r = "writable+executable code pages during " + where + ": " + S.wx[0]; S.wx.clear(); return r; }
	for (auto& r : S.regions) if ((r.prot & PROT_WRITE) && (r.prot & PROT_EXEC)) return "library-owned region is W+X after " + where;
	// independent cross-check
	FILE* f = fopen("/proc/self/maps", "r");
	if (f) {
		char line[512];
		while (fgets(line, sizeof line, f)) {
			unsigned long lo, hi; char perms[8];
			if (sscanf(line, "%lx-%lx %7s", &lo, &hi, perms) != 3) continue;
			if (perms[1] == 'w' && perms[2] == 'x') for (auto& r : S.regions) if (lo < r.hi && r.lo < hi) { fclose(f); return std::string("/proc/self/maps shows a library-owned rwx mapping after ") + where + ": " + line; }
		}
		fclose(f);
	}
	return "";
}
} // namespace protlog

extern "C" {
void* __real_mmap(void* addr, size_t len, int prot, int flags, int fd, off_t off);
int __real_munmap(void* addr, size_t len);
int __real_mprotect(void* addr, size_t len, int prot);
#ifdef PROTLOG_DEFINE_WRAPPERS
void* __wrap_mmap(void* addr, size_t len, int prot, int flags, int fd, off_t off) {
	void* p = __real_mmap(addr, len, prot, flags, fd, off);
	if (p != MAP_FAILED) {
		auto& S = protlog::st(); std::lock_guard<std::mutex> g(S.mu);
		if (!protlog::paused()) { S.regions.push_back({(uintptr_t)p, (uintptr_t)p + len, prot}); S.mmaps++; }
		if (!protlog::paused() && (prot & PROT_WRITE) && (prot & PROT_EXEC)) S.wx.push_back(std::string("mmap(") + std::to_string(len) + ", " + protlog::protStr(prot) + ")");
	}
	return p;
}
int __wrap_munmap(void* addr, size_t len) {
	{ auto& S = protlog::st(); std::lock_guard<std::mutex> g(S.mu); for (size_t i = 0; i < S.regions.size(); ++i) if (S.regions[i].lo == (uintptr_t)addr) { S.regions.erase(S.regions.begin() + i); break; } S.munmaps++; }
	return __real_munmap(addr, len);
}
int __wrap_mprotect(void* addr, size_t len, int prot) {
	int r = __real_mprotect(addr, len, prot);
	if (r == 0) {
		auto& S = protlog::st(); std::lock_guard<std::mutex> g(S.mu);
		if (protlog::paused()) return r;
		S.mprotects++;
		for (auto& reg : S.regions) if ((uintptr_t)addr < reg.hi && reg.lo < (uintptr_t)addr + len) reg.prot = prot;
		if (prot & PROT_EXEC) S.rxPhases++; else if (prot & PROT_WRITE) S.rwPhases++;
		if ((prot & PROT_WRITE) && (prot & PROT_EXEC)) S.wx.push_back(std::string("mprotect(") + std::to_string(len) + ", " + protlog::protStr(prot) + ")");
	}
	return r;
}
#endif
}
