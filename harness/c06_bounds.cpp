// C06 - execution and code generation stay inside their buffers for every program.
// Built with ASan (+ -fsanitize=bounds) for everything compiled from C/C++; guard pages (interpose/guard.hpp) around scratchpad,
// cache, synthetic dataset and every code buffer for the emitted code; checksums of previously emitted code; canaries and
// guard-page placement of the API's input/output buffers.
#define RXENV_DEFINE_WRAPPERS
#define GUARD_DEFINE_WRAPPERS
#include "interpose/guard.hpp"
#include "harness/progrun.hpp"
#include "gen/gens.hpp"

struct CodeInfo { uint8_t* code; size_t len; size_t protStart; uint64_t sum; size_t maxEnd; };
static std::map<randomx_vm*, CodeInfo> codeInfo;

static void onCreate(int flags, randomx_vm* vm) {
	if (!(flags & RANDOMX_FLAG_JIT)) return;
	guard::Region r = guard::lastMmap(16384);
	if (!r.live) { fprintf(stderr, "c06: no code mapping observed for JIT vm\n"); abort(); }
	CodeInfo ci{r.user, r.userLen, 0, 0, 0};
	// the program area is still untouched (zero) right after creation: everything emitted earlier (SuperscalarHash code of a
	// light VM, the epilogue) lies behind the first non-zero byte above the prologue page
	bool secure = flags & RANDOMX_FLAG_SECURE;   // secure buffers are R-X or RW-, always readable
	size_t s = 2048; while (s < ci.len && ci.code[s] == 0) ++s;
	ci.protStart = s;
	codeInfo[vm] = ci;
}

static std::string hook(randomx_vm* vm, int flags, bool before) {
	auto it = codeInfo.find(vm);
	if (it == codeInfo.end()) return "harness: JIT vm without code info";
	CodeInfo& ci = it->second;
	uint64_t sum = vh::fnv(ci.code + ci.protStart, ci.len - ci.protStart);
	if (before) { ci.sum = sum; return ""; }
	if (sum != ci.sum) return "code generation/execution modified previously emitted code (bytes at code offset >= " + std::to_string(ci.protStart) + " changed)";
	size_t e = ci.protStart; while (e > 0 && ci.code[e - 1] == 0) --e;
	ci.maxEnd = std::max(ci.maxEnd, e);
	static size_t globalMax = 0;
	if (e > globalMax) { globalMax = e; vh::st().labels["max:code-end-offset"] = e; vh::st().labels["max:protected-region-start"] = ci.protStart; }
	if (e > ci.protStart) return "emitted program code reaches into the protected region";
	return "";
}

static std::string progBody(const pg::ProgCase& c) {
	std::string why = compareEngines(c);   // any out-of-bounds access faults on a guard page / ASan report -> process dies -> driver attributes the case in flight
	if (!why.empty()) return why;
	if (vh::st().replaying) return "";
	vh::label(std::string("shape:") + pg::shapeName(c.shape));
	vh::label(c.fast ? "mode:fast" : "mode:light"); vh::label(c.v2 ? (c.hardAes ? "v2-hard-aes" : "v2-soft-aes-epilogue") : "v1");
	// configuration extremes
	uint64_t q13, q8; memcpy(&q13, c.prog.data() + 8 * 13, 8); memcpy(&q8, c.prog.data() + 8 * 8, 8);
	bool lastItem = (q13 % (randomx::DatasetExtraItems + 1)) == randomx::DatasetExtraItems;
	if (lastItem) vh::label("dataset-offset=max");
	if ((q8 & randomx::CacheLineAlignMask) == randomx::CacheLineAlignMask) vh::label("ma=last-line");
	if (lastItem && (q8 & randomx::CacheLineAlignMask) == randomx::CacheLineAlignMask) vh::label("first-read=last-dataset-item");
	if (c.shape == pg::MAXLEN) vh::label(std::string("max-code-size:") + (c.fast ? "fast" : "light") + (c.v2 ? (c.hardAes ? ",v2-hard" : ",v2-soft") : ",v1"));
	if (c.shape != pg::NATURAL || lastItem) vh::nontrivial(c.hash());
	return "";
}

// ---- API buffer placement ---------------------------------------------------------------------------------------------------
struct Placed {   // n bytes either ending at a PROT_NONE page or starting right behind one
	uint8_t* map; size_t mapLen; uint8_t* p;
	Placed(size_t n, bool atEnd, size_t slack) {
		size_t body = (n + slack + 4095) / 4096 * 4096 + 4096;
		mapLen = body + 2 * 4096;
		map = (uint8_t*)::syscall(SYS_mmap, nullptr, mapLen, PROT_READ | PROT_WRITE, MAP_PRIVATE | MAP_ANONYMOUS, -1, 0);
		memset(map, 0xCD, mapLen);
		::syscall(SYS_mprotect, map, 4096, PROT_NONE); ::syscall(SYS_mprotect, map + mapLen - 4096, 4096, PROT_NONE);
		p = atEnd ? map + mapLen - 4096 - n - slack : map + 4096 + slack;
	}
	~Placed() { ::syscall(SYS_munmap, map, mapLen); }
	bool intactExcept(const uint8_t* lo, size_t n) const { for (uint8_t* q = map + 4096; q < map + mapLen - 4096; ++q) if ((q < lo || q >= lo + n) && *q != 0xCD) return false; return true; }
};
struct ApiCase {
	uint32_t inLen; int inAtEnd, outAtEnd, outSlack, flags, batch; uint64_t seed;
	std::string dump() const { return vh::KVWriter()("inLen", inLen)("inAtEnd", (uint64_t)inAtEnd)("outAtEnd", (uint64_t)outAtEnd)("outSlack", (uint64_t)outSlack)("flags", (uint64_t)flags)("batch", (uint64_t)batch)("seed", seed).str(); }
	static ApiCase parse(const vh::KV& kv) { return ApiCase{(uint32_t)vh::getu(kv, "inLen"), (int)vh::getu(kv, "inAtEnd"), (int)vh::getu(kv, "outAtEnd"), (int)vh::getu(kv, "outSlack"), (int)vh::getu(kv, "flags"), (int)vh::getu(kv, "batch"), vh::getu(kv, "seed")}; }
};
static std::string apiBody(const ApiCase& c) {
	randomx_vm* vm = env.vm(c.flags);
	Placed in(c.inLen, c.inAtEnd, 0), out(32, c.outAtEnd, c.outSlack), in2(c.inLen, !c.inAtEnd, 0), out2(32, !c.outAtEnd, c.outSlack);
	vh::XorShift x(c.seed); x.fill(in.p, c.inLen); memcpy(in2.p, in.p, c.inLen);
	std::vector<uint8_t> ref(32), refIn(in.p, in.p + c.inLen);
	randomx_calculate_hash(vm, refIn.data(), refIn.size(), ref.data());
	if (c.batch) {
		randomx_calculate_hash_first(vm, in.p, c.inLen);
		randomx_calculate_hash_next(vm, in2.p, c.inLen, out.p);
		randomx_calculate_hash_last(vm, out2.p);
		if (memcmp(out2.p, ref.data(), 32) != 0) return "batch digest (2nd) differs with guard-page placed buffers";
		if (!out2.intactExcept(out2.p, 32)) return "hash_last wrote outside the 32 output bytes";
	}
	else randomx_calculate_hash(vm, in.p, c.inLen, out.p);
	if (memcmp(out.p, ref.data(), 32) != 0) return "digest differs with guard-page placed buffers";
	if (!out.intactExcept(out.p, 32)) return "hash wrote outside the 32 output bytes";
	if (memcmp(in.p, refIn.data(), c.inLen) != 0 || !in.intactExcept(in.p, c.inLen)) return "input buffer region was modified";
	vh::label(c.inAtEnd ? "input-ends-at-guard" : "input-starts-after-guard"); vh::label(c.outAtEnd ? "output-ends-at-guard" : "output-starts-after-guard");
	vh::label(c.batch ? "api:first/next/last" : "api:single"); vh::label("inLen:" + vg::lenClass(c.inLen)); vh::label(c.outSlack % 16 ? "output-unaligned" : "output-aligned");
	vh::nontrivial(vh::mix(vh::mix(c.seed, c.inLen), c.flags * 64 + c.inAtEnd * 8 + c.outAtEnd * 4 + c.batch));
	return "";
}

int main(int argc, char** argv) {
	auto minimizer = [](const pg::ProgCase& c) { return pg::minimize(c, [](const pg::ProgCase& t) { return !compareEngines(t).empty(); }); };
	// adversarial shapes: saturated (longest encodings in every slot), store-L3, fp-heavy (CFROUND v2), branchy; natural for the extremes of the configuration block
	vh::registerCheck<pg::ProgCase>("bounds_prog", [] { return pg::genProgCase({3, 5, 1, 3, 0, 2, 0, 4}, 55); }, progBody, true, minimizer);
	vh::registerCheck<ApiCase>("bounds_api", [] {
		using namespace rc;
		return gen::resize(100, gen::apply([](int len, int a, int b, int slack, int fl, int batch, uint64_t seed) {
			static const int flags[] = {RANDOMX_FLAG_JIT, RANDOMX_FLAG_JIT | RANDOMX_FLAG_HARD_AES, RANDOMX_FLAG_JIT | RANDOMX_FLAG_V2, RANDOMX_FLAG_JIT | RANDOMX_FLAG_HARD_AES | RANDOMX_FLAG_V2, RANDOMX_FLAG_JIT | RANDOMX_FLAG_SECURE, RANDOMX_FLAG_DEFAULT};
			return ApiCase{(uint32_t)len, a, b, slack, flags[fl], batch, seed};
		}, vg::genLenBiased({0, 1, 2, 63, 64, 65, 127, 128, 129, 255, 256, 257, 4095, 4096, 4097}, 600), gen::inRange(0, 2), gen::inRange(0, 2), gen::inRange(0, 33), gen::inRange(0, 6), gen::inRange(0, 2), gen::arbitrary<uint64_t>()));
	}, apiBody, true);
	return vh::harnessMain(argc, argv, [] { env.onCreate = onCreate; jitHook = hook; env.init(true); });
}
