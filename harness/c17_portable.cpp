// C17 - the portable (non-SIMD) code path computes the same function.
// The generic C++ fallback build (librx_portable.so, dlopen'ed) vs the default x86-64 build linked into this harness.
#define RXENV_DEFINE_WRAPPERS
#include "harness/rxenv.hpp"
#include "gen/progs.hpp"
#include "gen/gens.hpp"
#include "intrin_portable.h"
#include "dataset.hpp"
#include <dlfcn.h>
#include <cfenv>

using Bytes = std::vector<uint8_t>;
static struct PV {
	int (*info)(); uint64_t (*mulh)(uint64_t, uint64_t); int64_t (*smulh)(int64_t, int64_t); uint64_t (*rotr)(uint64_t, unsigned); uint64_t (*rotl)(uint64_t, unsigned);
	void (*cvt)(const void*, double*); void (*fpop)(int, int, const double*, const double*, double*); int (*init)(const void*, size_t); void (*hash)(const void*, size_t, int, void*);
	void (*item)(uint64_t, void*); int (*run)(const uint8_t*, int, int, uint8_t*, uint8_t*); int (*roundingPreserved)(int, const void*, size_t, int, void*);
} pv;
static rxe::Env env;
static Bytes currentKey;
static const char DEFAULT_KEY[] = "verif program-level key";

static void setKey(const Bytes& k) {
	if (k == currentKey) return;
	randomx_init_cache(env.cache, k.data(), k.size());
	for (auto& kv : env.vms) randomx_vm_set_cache(kv.second, env.cache);
	if (pv.init(k.data(), k.size()) != 0) { fprintf(stderr, "pv_init failed\n"); abort(); }
	currentKey = k;
}

// ---- function level ---------------------------------------------------------------------------------------------------------------
struct FnCase {
	uint64_t a, b; int op, mode;
	std::string dump() const { return vh::KVWriter()("a", a)("b", b)("op", (uint64_t)op)("mode", (uint64_t)mode).str(); }
	static FnCase parse(const vh::KV& kv) { return FnCase{vh::getu(kv, "a"), vh::getu(kv, "b"), (int)vh::getu(kv, "op"), (int)vh::getu(kv, "mode")}; }
};
static std::string fnBody(const FnCase& c) {
	// integer helpers: portable == default build == __int128 arithmetic
	uint64_t mh = (uint64_t)(((unsigned __int128)c.a * c.b) >> 64); int64_t sh = (int64_t)(((__int128)(int64_t)c.a * (int64_t)c.b) >> 64);
	if (pv.mulh(c.a, c.b) != mh || mulh(c.a, c.b) != mh) return "mulh(" + vh::u64s(c.a) + "," + vh::u64s(c.b) + "): portable " + vh::u64s(pv.mulh(c.a, c.b)) + " default " + vh::u64s(mulh(c.a, c.b)) + " exact " + vh::u64s(mh);
	if (pv.smulh((int64_t)c.a, (int64_t)c.b) != sh || smulh((int64_t)c.a, (int64_t)c.b) != sh) return "smulh(" + vh::u64s(c.a) + "," + vh::u64s(c.b) + "): portable " + vh::u64s(pv.smulh(c.a, c.b)) + " exact " + vh::u64s(sh);
	unsigned cnt = (unsigned)(c.b & 63);
	uint64_t rr = cnt ? (c.a >> cnt) | (c.a << (64 - cnt)) : c.a, rl = cnt ? (c.a << cnt) | (c.a >> (64 - cnt)) : c.a;
	if (pv.rotr(c.a, cnt) != rr || rotr(c.a, cnt) != rr) return "rotr(" + vh::u64s(c.a) + "," + std::to_string(cnt) + ") portable " + vh::u64s(pv.rotr(c.a, cnt)) + " expected " + vh::u64s(rr);
	if (pv.rotl(c.a, cnt) != rl || rotl(c.a, cnt) != rl) return "rotl(" + vh::u64s(c.a) + "," + std::to_string(cnt) + ") portable " + vh::u64s(pv.rotl(c.a, cnt)) + " expected " + vh::u64s(rl);
	// int -> double conversion of a memory operand
	alignas(16) double pc[2], dc[2]; pv.cvt(&c.a, pc); rx_store_vec_f128(dc, rx_cvt_packed_int_vec_f128(&c.a));
	if (memcmp(pc, dc, 16) != 0) return "packed int32 -> double conversion of " + vh::u64s(c.a) + " differs";
	// FP operation under a rounding mode, operands in the ranges the VM produces (converted ints, group A style, group E style)
	alignas(16) double x[2], y[2], pr[2], dr[2];
	alignas(16) uint64_t xb[2] = {c.a, c.b}, yb[2] = {c.b, c.a};
	if (c.op >= 2) { xb[0] = (xb[0] & 0x000fffffffffffffULL) | 0x3300000000000000ULL | ((xb[0] >> 56 & 0xf0) << 48); xb[1] = (xb[1] & 0x000fffffffffffffULL) | 0x3700000000000000ULL; }   // positive, E-register like
	else { pv.cvt(&c.a, x); memcpy(xb, x, 16); }
	yb[0] = (yb[0] & 0x000fffffffffffffULL) | ((1023 + (yb[0] >> 59)) << 52); yb[1] = (yb[1] & 0x000fffffffffffffULL) | ((1023 + (yb[1] >> 59)) << 52);   // group A like: [1, 2^32)
	memcpy(x, xb, 16); memcpy(y, yb, 16);
	pv.fpop(c.op, c.mode, x, y, pr);
	uint32_t saved = _mm_getcsr(); rx_set_rounding_mode(c.mode);
	rx_vec_f128 vx = rx_load_vec_f128(x), vy = rx_load_vec_f128(y), vr;
	switch (c.op) { case 0: vr = rx_add_vec_f128(vx, vy); break; case 1: vr = rx_sub_vec_f128(vx, vy); break; case 2: vr = rx_mul_vec_f128(vx, vy); break; case 3: vr = rx_div_vec_f128(vx, vy); break; case 4: vr = rx_sqrt_vec_f128(vx); break; case 5: vr = rx_swap_vec_f128(vx); break; default: vr = rx_xor_vec_f128(vx, vy); break; }
	rx_store_vec_f128(dr, vr); _mm_setcsr(saved);
	if (memcmp(pr, dr, 16) != 0) return "FP op " + std::to_string(c.op) + " under rounding mode " + std::to_string(c.mode) + " differs: portable " + vh::hex(pr, 16) + " default " + vh::hex(dr, 16) + " operands " + vh::hex(x, 16) + " " + vh::hex(y, 16);
	if (vh::st().replaying) return "";
	vh::label("fp-op:" + std::to_string(c.op)); vh::label("mode:" + std::to_string(c.mode));
	vh::nontrivial(vh::mix(vh::mix(c.a, c.b), c.op * 4 + c.mode));
	return "";
}

// ---- program level ----------------------------------------------------------------------------------------------------------------
static std::vector<uint8_t> spadP(RANDOMX_SCRATCHPAD_L3);
static std::string progBody(const pg::ProgCase& c) {
	Bytes k(DEFAULT_KEY, DEFAULT_KEY + sizeof DEFAULT_KEY - 1); setKey(k);
	randomx_vm* vm = env.vm(c.v2 ? RANDOMX_FLAG_V2 : 0);   // default build: light interpreter, software AES
	auto a = rxe::runInjected(vm, c.prog.data(), c.spadClass, c.spadSeed, c.fprc);
	rxe::fillScratchpad(spadP.data(), c.spadClass, c.spadSeed);
	uint8_t regP[256];
	int modeP = pv.run(c.prog.data(), c.v2, c.fprc, spadP.data(), regP);
	if (memcmp(regP, &a.reg, 256) != 0) { int i = 0; while (regP[i] == ((uint8_t*)&a.reg)[i]) ++i; return std::string("register file of the portable build differs from the default build at byte ") + std::to_string(i) + " (" + (i < 64 ? "r" : i < 128 ? "f" : i < 192 ? "e" : "a") + ")"; }
	if (memcmp(spadP.data(), vm->getScratchpad(), RANDOMX_SCRATCHPAD_L3) != 0) { size_t i = 0; const uint8_t* s = (const uint8_t*)vm->getScratchpad(); while (s[i] == spadP[i]) ++i; return "scratchpad of the portable build differs at offset " + std::to_string(i); }
	if (modeP != (int)((a.mxcsr >> 13) & 3)) return "rounding mode after the program: portable " + std::to_string(modeP) + " default " + std::to_string((a.mxcsr >> 13) & 3);
	if (vh::st().replaying) return "";
	vh::label(std::string("shape:") + pg::shapeName(c.shape)); vh::label(c.v2 ? "v2" : "v1");
	vh::nontrivial(c.hash());
	return "";
}

// ---- hashes, items, rounding preservation -----------------------------------------------------------------------------------------
struct HCase {
	Bytes key; std::vector<Bytes> inputs; uint64_t itemSeed; int mode;
	std::string dump() const { vh::KVWriter w; w("key", vh::hex(key.data(), key.size()))("itemSeed", itemSeed)("mode", (uint64_t)mode)("n", (uint64_t)inputs.size()); for (size_t i = 0; i < inputs.size(); ++i) w("input" + std::to_string(i), vh::hex(inputs[i].data(), inputs[i].size())); return w.str(); }
	static HCase parse(const vh::KV& kv) { HCase c; c.key = vh::unhex(vh::gets(kv, "key")); c.itemSeed = vh::getu(kv, "itemSeed"); c.mode = (int)vh::getu(kv, "mode"); for (size_t i = 0; i < vh::getu(kv, "n"); ++i) c.inputs.push_back(vh::unhex(vh::gets(kv, "input" + std::to_string(i)))); return c; }
};
static std::string hashBody(const HCase& c) {
	setKey(c.key);
	vh::XorShift x(c.itemSeed);
	const uint64_t N = randomx::DatasetSize / 64;
	for (int i = 0; i < 64; ++i) {
		uint64_t idx = i < 2 ? (i ? N - 1 : 0) : x.next() % N; uint8_t a[64], b[64];
		randomx::initDatasetItem(env.cache, a, idx); pv.item(idx, b);
		if (memcmp(a, b, 64) != 0) return "dataset item " + std::to_string(idx) + " differs between the portable and the default build";
	}
	for (size_t i = 0; i < c.inputs.size(); ++i) {
		int v2 = (int)(i & 1); uint8_t d[32], p[32], p2[32];
		randomx_vm* vm = env.vm(RANDOMX_FLAG_JIT | (v2 ? RANDOMX_FLAG_V2 : 0));
		randomx_calculate_hash(vm, c.inputs[i].data(), c.inputs[i].size(), d);
		pv.hash(c.inputs[i].data(), c.inputs[i].size(), v2, p);
		if (memcmp(d, p, 32) != 0) return "hash differs: portable " + vh::hex(p, 32) + " default " + vh::hex(d, 32) + " (input " + std::to_string(i) + ", v" + std::to_string(v2 + 1) + ")";
		int kept = pv.roundingPreserved((c.mode + (int)i) & 3, c.inputs[i].data(), c.inputs[i].size(), v2, p2);
		if (memcmp(d, p2, 32) != 0) return "portable hash depends on the caller's rounding mode " + std::to_string((c.mode + i) & 3);
		if (!kept) return "portable build does not preserve the caller's rounding mode " + std::to_string((c.mode + i) & 3) + " across randomx_calculate_hash";
		if (!vh::st().replaying) { vh::label("rounding-mode-preserved:" + std::to_string((c.mode + i) & 3)); vh::nontrivial(vh::fnv(c.key.data(), c.key.size(), vh::fnv(c.inputs[i].data(), c.inputs[i].size(), v2))); }
	}
	if (!vh::st().replaying) vh::label("dataset-items-compared", 64);
	return "";
}

int main(int argc, char** argv) {
	using namespace rc;
	vh::registerCheck<FnCase>("functions", [] { return gen::resize(100, gen::apply([](uint64_t a, uint64_t b, int op, int mode) { return FnCase{a, b, op, mode}; }, vh::genU64(), vh::genU64(), gen::inRange(0, 7), gen::inRange(0, 4))); }, fnBody);
	vh::registerCheck<pg::ProgCase>("programs", [] { return pg::genProgCase({6, 2, 2, 1, 1, 3, 1}, 0, false); }, progBody, true,
		[](const pg::ProgCase& c) { return pg::minimize(c, [](const pg::ProgCase& t) { return !progBody(t).empty(); }); });
	vh::registerCheck<HCase>("hashes", [] { return gen::resize(100, gen::apply([](Bytes k, std::vector<Bytes> in, uint64_t s, int m) { return HCase{k, in, s, m}; }, vg::genKey(), gen::container<std::vector<Bytes>>(2, vg::genInput()), gen::arbitrary<uint64_t>(), gen::inRange(0, 4))); }, hashBody, true, nullptr, 3);
	return vh::harnessMain(argc, argv, [] {
		const char* so = getenv("VERIF_PORTABLE_SO");
		void* h = so ? dlopen(so, RTLD_NOW | RTLD_LOCAL) : nullptr;
		if (!h) { fprintf(stderr, "cannot load portable build: %s\n", dlerror()); exit(9); }
#define L(n, s) pv.n = (decltype(pv.n))dlsym(h, s); if (!pv.n) { fprintf(stderr, "missing %s\n", s); exit(9); }
		L(info, "pv_info") L(mulh, "pv_mulh") L(smulh, "pv_smulh") L(rotr, "pv_rotr") L(rotl, "pv_rotl") L(cvt, "pv_cvt") L(fpop, "pv_fpop") L(init, "pv_init") L(hash, "pv_hash") L(item, "pv_item") L(run, "pv_run") L(roundingPreserved, "pv_rounding_preserved")
		int info = pv.info();
		if (info != 16) { fprintf(stderr, "portable build is not using the generic fallbacks (info=%d)\n", info); exit(9); }   // no SSE2/AES/int128/SSSE3 macros, struct-based vectors
		env.init(false, DEFAULT_KEY);
		currentKey.assign(DEFAULT_KEY, DEFAULT_KEY + sizeof DEFAULT_KEY - 1);
		pv.init(currentKey.data(), currentKey.size());
	});
}
