// C04 - x86-64 JIT-compiled programs behave exactly like interpreted programs.
// Also hosts: C18 JIT side of the IMUL_RCP no-op rule, C07 dynamic JIT equality on branchy programs,
// C06 (same harness built with ASan + guard pages, see c06 stage).
#define RXENV_DEFINE_WRAPPERS
#include "harness/progrun.hpp"

static std::string body(const pg::ProgCase& c) {
	std::string why = compareEngines(c);
	if (!why.empty()) return why;
	if (vh::st().replaying) return "";
	pg::Feat f = pg::classify(c.prog.data(), c.nInstr());
	vh::label(std::string("shape:") + pg::shapeName(c.shape));
	vh::label(c.fast ? "mode:fast" : "mode:light"); vh::label(c.v2 ? "v2" : "v1"); vh::label(c.hardAes ? "aes:hard" : "aes:soft"); vh::label(c.secure ? "secure" : "non-secure");
	vh::label("fprc:" + std::to_string(c.fprc)); vh::label("spad-class:" + std::to_string(c.spadClass));
	if (f.srcEqDstMem) vh::label("has:src==dst-mem-form");
	if (f.r4r5) vh::label("has:r4/r5-operand");
	if (f.rcpNoop) vh::label("has:imul_rcp-0-or-pow2");
	if (f.cfround) vh::label("has:cfround");
	if (f.cbranch) vh::label("has:cbranch");
	if (f.storeL3) vh::label("has:L3-store");
	if (f.branchToStart) vh::label("has:branch-to-program-start");
	if (f.srcEqDstMem || f.r4r5 || f.rcpNoop || f.cfround || f.cbranch || f.storeL3 || f.branchToStart) vh::nontrivial(c.hash());
	return "";
}

int main(int argc, char** argv) {
	auto minimizer = [](const pg::ProgCase& c) { return pg::minimize(c, [](const pg::ProgCase& t) { return !compareEngines(t).empty(); }); };
	// shape weights: natural, saturated, branchy, store-L3, sparse, fp-heavy, rcp-noop
	vh::registerCheck<pg::ProgCase>("jit_vs_interp", [] { return pg::genProgCase({6, 3, 3, 2, 2, 2, 1, 1, 2}, 85); }, body, true, minimizer);
	vh::registerCheck<pg::ProgCase>("jit_light", [] { return pg::genProgCase({6, 3, 3, 2, 2, 2, 1, 1, 2}, 0); }, body, true, minimizer);
	vh::registerCheck<pg::ProgCase>("rcp_noop", [] { return pg::genProgCase({0, 0, 0, 0, 0, 0, 1}, 90); }, body, true, minimizer);
	vh::registerCheck<pg::ProgCase>("branchy", [] { return pg::genProgCase({0, 0, 2, 0, 0, 0, 0, 0, 1}, 90); }, body, true, minimizer);
	vh::registerCheck<pg::ProgCase>("adversarial", [] { return pg::genProgCase({0, 4, 1, 3, 0, 2, 0, 2}, 70); }, body, true, minimizer);
	// writes seed inputs for the libFuzzer target (fuzz/corpus/jit): one program per shape and version
	vh::Sub d; d.name = "dump_corpus";
	d.runGen = [](int, int, uint64_t) -> bool {
		for (int shape = 0; shape < pg::NSHAPES; ++shape) for (int k = 0; k < 3; ++k) {
			std::vector<uint8_t> buf(pg::ProgramBytes);
			pg::expand(buf.data(), shape, 1000 + 7 * shape + k, (shape * 5 + k * 11) % pg::NTYPES, {});
			uint16_t ctl = (uint16_t)((k & 1) | ((shape & 1) << 1) | (1 << 3) | ((k & 3) << 6) | ((shape % 5) << 8));
			uint64_t spadSeed = 0x1234567 * (shape + 1) + k;
			for (int i = 7; i >= 0; --i) buf.push_back((uint8_t)(spadSeed >> (8 * i)));   // taken from the end, most significant byte last
			buf.push_back((uint8_t)(ctl & 0xff)); buf.push_back((uint8_t)(ctl >> 8));
			char fn[256]; snprintf(fn, sizeof fn, "fuzz/corpus/jit/%s-%d", pg::shapeName(shape), k);
			FILE* f = fopen(fn, "wb"); if (f) { fwrite(buf.data(), 1, buf.size(), f); fclose(f); }
		}
		return true;
	};
	d.runReplay = [](const vh::KV&) -> std::string { return ""; };
	vh::registry().push_back(d);
	return vh::harnessMain(argc, argv, [] { env.init(true); });
}
