// C04 - x86-64 JIT-compiled programs behave exactly like interpreted programs.
// Also hosts: C18 JIT side of the IMUL_RCP no-op rule, C07 dynamic JIT equality on branchy programs,
// C06 (same harness built with ASan + guard pages, see c06 stage).
#define RXENV_DEFINE_WRAPPERS
#include "harness/rxenv.hpp"
#include "gen/progs.hpp"

static rxe::Env env;

static std::string regDiff(const randomx::RegisterFile& a, const randomx::RegisterFile& b) {
	std::string s;
	for (int i = 0; i < 8; ++i) if (a.r[i] != b.r[i]) s += " r" + std::to_string(i) + ": interp=" + vh::u64s(a.r[i]) + " jit=" + vh::u64s(b.r[i]);
	auto fp = [&](const char* n, const randomx::fpu_reg_t* x, const randomx::fpu_reg_t* y) {
		for (int i = 0; i < 4; ++i) if (memcmp(&x[i], &y[i], 16)) s += std::string(" ") + n + std::to_string(i) + ": interp=" + vh::hex(&x[i], 16) + " jit=" + vh::hex(&y[i], 16);
	};
	fp("f", a.f, b.f); fp("e", a.e, b.e); fp("a", a.a, b.a);
	return s;
}

static std::string compareEngines(const pg::ProgCase& c) {
	int base = (c.hardAes ? RANDOMX_FLAG_HARD_AES : 0) | (c.fast ? RANDOMX_FLAG_FULL_MEM : 0) | (c.v2 ? RANDOMX_FLAG_V2 : 0);
	randomx_vm* vi = env.vm(base);
	randomx_vm* vj = env.vm(base | RANDOMX_FLAG_JIT | (c.secure ? RANDOMX_FLAG_SECURE : 0));
	auto a = rxe::runInjected(vi, c.prog.data(), c.spadClass, c.spadSeed, c.fprc);
	auto b = rxe::runInjected(vj, c.prog.data(), c.spadClass, c.spadSeed, c.fprc);
	if (memcmp(&a.reg, &b.reg, sizeof a.reg) != 0) return "register file differs after the program:" + regDiff(a.reg, b.reg);
	const uint8_t* sa = (const uint8_t*)vi->getScratchpad(); const uint8_t* sb = (const uint8_t*)vj->getScratchpad();
	if (memcmp(sa, sb, RANDOMX_SCRATCHPAD_L3) != 0) {
		size_t i = 0; while (sa[i] == sb[i]) ++i;
		return "scratchpad differs at offset " + std::to_string(i & ~7ull) + ": interp=" + vh::hex(sa + (i & ~7ull), 8) + " jit=" + vh::hex(sb + (i & ~7ull), 8);
	}
	if ((a.mxcsr & rxe::MXCSR_CTRL_MASK) != (b.mxcsr & rxe::MXCSR_CTRL_MASK))
		return "MXCSR control bits differ after the program: interp=" + vh::u64s(a.mxcsr) + " jit=" + vh::u64s(b.mxcsr);
	return "";
}

static std::string body(const pg::ProgCase& c) {
	std::string why = compareEngines(c);
	if (!why.empty()) return why;
	if (vh::st().replaying) return "";
	pg::Feat f = pg::classify(c.prog.data(), c.nInstr());
	vh::label(std::string("shape:") + pg::shapeName(c.shape));
	vh::label(c.fast ? "mode:fast" : "mode:light"); vh::label(c.v2 ? "v2" : "v1"); vh::label(c.hardAes ? "aes:hard" : "aes:soft"); vh::label(c.secure ? "secure" : "non-secure");
	vh::label("fprc:" + std::to_string(c.fprc)); vh::label("spad-class:" + std::to_string(c.spadClass));
	if (f.srcEqDstMem) vh::label("has:src==dst-mem-form");
	if (f.r4r5) vh::label("has:r4/r5-operand");
	if (f.rcpNoop) vh::label("has:imul_rcp-0-or-pow2");
	if (f.cfround) vh::label("has:cfround");
	if (f.cbranch) vh::label("has:cbranch");
	if (f.storeL3) vh::label("has:L3-store");
	if (f.branchToStart) vh::label("has:branch-to-program-start");
	if (f.srcEqDstMem || f.r4r5 || f.rcpNoop || f.cfround || f.cbranch || f.storeL3 || f.branchToStart) vh::nontrivial(c.hash());
	return "";
}

int main(int argc, char** argv) {
	auto minimizer = [](const pg::ProgCase& c) { return pg::minimize(c, [](const pg::ProgCase& t) { return !compareEngines(t).empty(); }); };
	// shape weights: natural, saturated, branchy, store-L3, sparse, fp-heavy, rcp-noop
	vh::registerCheck<pg::ProgCase>("jit_vs_interp", [] { return pg::genProgCase({6, 3, 3, 2, 2, 2, 1}, 85); }, body, true, minimizer);
	vh::registerCheck<pg::ProgCase>("jit_light", [] { return pg::genProgCase({6, 3, 3, 2, 2, 2, 1}, 0); }, body, true, minimizer);
	vh::registerCheck<pg::ProgCase>("rcp_noop", [] { return pg::genProgCase({0, 0, 0, 0, 0, 0, 1}, 90); }, body, true, minimizer);
	vh::registerCheck<pg::ProgCase>("branchy", [] { return pg::genProgCase({0, 0, 1, 0, 0, 0, 0}, 90); }, body, true, minimizer);
	vh::registerCheck<pg::ProgCase>("adversarial", [] { return pg::genProgCase({0, 4, 1, 3, 0, 2, 0}, 70); }, body, true, minimizer);
	return vh::harnessMain(argc, argv, [] { env.init(true); });
}
