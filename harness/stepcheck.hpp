// Shared by the rapidcheck harness (c05_step.cpp) and the libFuzzer target (fuzz/fuzz_step_vs_model.cpp):
// one short program executed instruction by instruction by the implementation and by the specification model.
#pragma once
#include "harness/vh.hpp"
#include "gen/progs.hpp"
#include "ref_vm.hpp"
#include "vm_interpreted.hpp"      // -fno-access-control on the including TU: initialize(), config, maskRegisterExponentMantissa
#include "bytecode_machine.hpp"
#include <cmath>
#include <xmmintrin.h>

using namespace randomx;

struct StepCase {
	std::vector<uint8_t> cfg;      // 128
	std::vector<uint8_t> words;    // 8*n
	uint64_t r[8]; uint64_t fe[8]; // fe: 8-byte memory values converted to f0-f3, e0-e3
	int v2, fprc, spadClass; uint64_t spadSeed;
	std::string dump() const {
		vh::KVWriter w; w.bytes("cfg", cfg.data(), cfg.size()).bytes("words", words.data(), words.size()).bytes("r", r, 64).bytes("fe", fe, 64);
		w("v2", (uint64_t)v2)("fprc", (uint64_t)fprc)("spadClass", (uint64_t)spadClass)("spadSeed", spadSeed);
		return w.str();
	}
	static StepCase parse(const vh::KV& kv) {
		StepCase c; c.cfg = vh::unhex(vh::gets(kv, "cfg")); c.cfg.resize(128); c.words = vh::unhex(vh::gets(kv, "words")); c.words.resize(c.words.size() / 8 * 8);
		auto r = vh::unhex(vh::gets(kv, "r")); r.resize(64); memcpy(c.r, r.data(), 64); auto fe = vh::unhex(vh::gets(kv, "fe")); fe.resize(64); memcpy(c.fe, fe.data(), 64);
		c.v2 = (int)vh::getu(kv, "v2"); c.fprc = (int)vh::getu(kv, "fprc"); c.spadClass = (int)vh::getu(kv, "spadClass"); c.spadSeed = vh::getu(kv, "spadSeed");
		return c;
	}
};

static void fillSpad(uint8_t* sp, int cls, uint64_t seed) {
	const size_t n = RANDOMX_SCRATCHPAD_L3; vh::XorShift x(seed);
	switch (cls) {
	case 0: x.fill(sp, n); break;
	case 1: memset(sp, 0, n); break;
	case 2: memset(sp, 0xff, n); break;
	case 3: { static const uint32_t ext[8] = {0x80000000u, 0x7fffffffu, 0, 1, 0xffffffffu, 0x80000001u, 0x7ffffffeu, 2}; for (size_t i = 0; i < n; i += 4) { uint32_t v = ext[x.next() & 7]; memcpy(sp + i, &v, 4); } break; }
	default: for (size_t i = 0; i < n; i += 8) { uint64_t v = x.next() & 0xff; if (x.next() & 1) v = (uint64_t)(-(int64_t)v); memcpy(sp + i, &v, 8); } break;
	}
}

static uint64_t lo(rx_vec_f128 v) { alignas(16) uint64_t t[2]; rx_store_vec_f128((double*)t, v); return t[0]; }
static uint64_t hi(rx_vec_f128 v) { alignas(16) uint64_t t[2]; rx_store_vec_f128((double*)t, v); return t[1]; }
static bool isNaNBits(uint64_t b) { return ((b >> 52) & 0x7ff) == 0x7ff && (b & ((1ULL << 52) - 1)) != 0; }
static bool isSubBits(uint64_t b) { return ((b >> 52) & 0x7ff) == 0 && (b & ((1ULL << 52) - 1)) != 0; }

static uint8_t* spadImpl; static uint8_t* spadRef;
static std::vector<uint8_t> opcodeSeen(512, 0);

static std::string stepBody(const StepCase& c) {
	const int n = (int)c.words.size() / 8;
	randomx_flags flags = (randomx_flags)(c.v2 ? RANDOMX_FLAG_V2 : 0);
	// ---- VM programming (4.5): implementation's initialize() vs model configure()
	static InterpretedVmDefault* vm = new InterpretedVmDefault(RANDOMX_FLAG_DEFAULT);
	memcpy((void*)&vm->program, c.cfg.data(), 128);
	vm->initialize();
	ref::Vm m; m.version = c.v2 ? 2 : 1; m.spad = spadRef;
	m.configure(c.cfg.data());
	for (int i = 0; i < 4; ++i) {
		uint64_t al, ah; memcpy(&al, &vm->reg.a[i].lo, 8); memcpy(&ah, &vm->reg.a[i].hi, 8);
		if (al != m.a[i][0] || ah != m.a[i][1]) return "group A register a" + std::to_string(i) + " initialised to " + vh::u64s(al) + "," + vh::u64s(ah) + " expected " + vh::u64s(m.a[i][0]) + "," + vh::u64s(m.a[i][1]);
		double dl, dh; memcpy(&dl, &al, 8); memcpy(&dh, &ah, 8);
		if (!(dl >= 1.0 && dl < 4294967296.0 && dh >= 1.0 && dh < 4294967296.0)) return "group A register outside [1, 2^32)";
	}
	if (vm->mem.ma != (m.ma & CacheLineAlignMask) && vm->mem.ma != m.ma) return "ma initialised to " + vh::u64s(vm->mem.ma) + " expected " + vh::u64s(m.ma);
	if ((vm->mem.mx & ~63u) != (m.mx & ~63u)) return "mx initialised to " + vh::u64s(vm->mem.mx) + " expected " + vh::u64s(m.mx);
	if ((int)vm->config.readReg0 != m.readReg[0] || (int)vm->config.readReg1 != m.readReg[1] || (int)vm->config.readReg2 != m.readReg[2] || (int)vm->config.readReg3 != m.readReg[3]) return "address register selection differs from Table 4.5.3";
	if (vm->datasetOffset != m.datasetOffset) return "datasetOffset " + vh::u64s(vm->datasetOffset) + " expected " + vh::u64s(m.datasetOffset);
	ProgramConfiguration config = vm->config;

	// ---- machine state reachable per 4.6: r arbitrary, f/e converted from memory values
	fillSpad(spadImpl, c.spadClass, c.spadSeed);
	memcpy(spadRef, spadImpl, RANDOMX_SCRATCHPAD_L3);
	BytecodeMachine bm; NativeRegisterFile nreg; static InstructionByteCode bc[RANDOMX_PROGRAM_MAX_SIZE];
	for (int i = 0; i < 8; ++i) { nreg.r[i] = c.r[i]; m.r[i] = c.r[i]; }
	for (int i = 0; i < 4; ++i) {
		nreg.a[i] = rx_load_vec_f128(&vm->reg.a[i].lo);
		nreg.f[i] = rx_cvt_packed_int_vec_f128(&c.fe[i]);
		nreg.e[i] = BytecodeMachine::maskRegisterExponentMantissa(config, rx_cvt_packed_int_vec_f128(&c.fe[4 + i]));
		int32_t x0 = (int32_t)(uint32_t)c.fe[i], x1 = (int32_t)(uint32_t)(c.fe[i] >> 32), y0 = (int32_t)(uint32_t)c.fe[4 + i], y1 = (int32_t)(uint32_t)(c.fe[4 + i] >> 32);
		m.f[i][0] = ref::cvtF(x0); m.f[i][1] = ref::cvtF(x1); m.e[i][0] = ref::cvtE(y0, m.eMaskQuad[0]); m.e[i][1] = ref::cvtE(y1, m.eMaskQuad[1]);
		if (lo(nreg.f[i]) != m.f[i][0] || hi(nreg.f[i]) != m.f[i][1]) return "group F conversion (4.3.1) of " + vh::u64s(c.fe[i]) + " gives " + vh::u64s(lo(nreg.f[i])) + "," + vh::u64s(hi(nreg.f[i]));
		if (lo(nreg.e[i]) != m.e[i][0] || hi(nreg.e[i]) != m.e[i][1]) return "group E conversion (4.3.2) of " + vh::u64s(c.fe[4 + i]) + " gives " + vh::u64s(lo(nreg.e[i])) + "," + vh::u64s(hi(nreg.e[i])) + " expected " + vh::u64s(m.e[i][0]) + "," + vh::u64s(m.e[i][1]);
	}
	// ---- decode
	bm.beginCompilation(nreg);
	alignas(8) Instruction ins[RANDOMX_PROGRAM_MAX_SIZE];
	memcpy((void*)ins, c.words.data(), (size_t)n * 8);
	for (int i = 0; i < n; ++i) bm.compileInstruction(ins[i], i, bc[i]);
	m.loadProgram(c.words.data(), n);
	m.fprc = c.fprc;
	uint32_t implCsr = 0x9FC0u | ((uint32_t)c.fprc << 13);
	const uint32_t harnessCsr = _mm_getcsr();
	// ---- execute one instruction at a time
	int pc = 0, steps = 0;
	while (pc < n && steps < 3 * n + 8) {
		const ref::Word& w = m.prog[pc];
		int op = ref::opOfOpcode(w.opcode);
		int ipc = pc;
		_mm_setcsr(implCsr);
		BytecodeMachine::executeInstruction(bc[pc], ipc, spadImpl, config, flags);
		implCsr = _mm_getcsr();
		_mm_setcsr(harnessCsr);
		++ipc;
		int mpc = m.step(pc);
		std::string at = " after instruction " + std::to_string(pc) + " (" + ref::opName(op) + " word " + vh::hex(c.words.data() + 8 * pc, 8) + ", " + (c.v2 ? "v2" : "v1") + ")";
		if (ipc != mpc) return "next pc " + std::to_string(ipc) + " expected " + std::to_string(mpc) + at;
		for (int i = 0; i < 8; ++i) if (nreg.r[i] != m.r[i]) return "r" + std::to_string(i) + "=" + vh::u64s(nreg.r[i]) + " expected " + vh::u64s(m.r[i]) + at;
		for (int i = 0; i < 4; ++i) {
			if (lo(nreg.f[i]) != m.f[i][0] || hi(nreg.f[i]) != m.f[i][1]) return "f" + std::to_string(i) + "=" + vh::u64s(lo(nreg.f[i])) + "," + vh::u64s(hi(nreg.f[i])) + " expected " + vh::u64s(m.f[i][0]) + "," + vh::u64s(m.f[i][1]) + at;
			if (lo(nreg.e[i]) != m.e[i][0] || hi(nreg.e[i]) != m.e[i][1]) return "e" + std::to_string(i) + "=" + vh::u64s(lo(nreg.e[i])) + "," + vh::u64s(hi(nreg.e[i])) + " expected " + vh::u64s(m.e[i][0]) + "," + vh::u64s(m.e[i][1]) + at;
			uint64_t v[4] = {lo(nreg.f[i]), hi(nreg.f[i]), lo(nreg.e[i]), hi(nreg.e[i])};
			for (int k = 0; k < 4; ++k) { if (isNaNBits(v[k])) return "NaN in a floating point register" + at; if (isSubBits(v[k])) return "subnormal in a floating point register" + at; }
			if ((v[2] >> 63) || (v[3] >> 63) || (v[2] << 1) == 0 || (v[3] << 1) == 0) return "group E register not positive" + at;
		}
		if ((int)((implCsr >> 13) & 3) != m.fprc) return "rounding mode " + std::to_string((implCsr >> 13) & 3) + " expected " + std::to_string(m.fprc) + at;
		if ((implCsr & 0xFFC0u & ~0x6000u) != 0x9FC0u) return "MXCSR control word " + vh::u64s(implCsr) + " is not the fixed RandomX state" + at;
		if (op == ref::ISTORE) {
			// compare the touched line eagerly so the failing instruction is named
			uint32_t mask = (w.mod >> 4) >= 14 ? ((ref::kL3 - 1) & ~7u) : ((w.mod & 3) == 0 ? ((ref::kL2 - 1) & ~7u) : ((ref::kL1 - 1) & ~7u));
			uint32_t addr = (uint32_t)(m.r[w.dst & 7] + (uint64_t)(int64_t)(int32_t)w.imm32) & mask;
			if (memcmp(spadImpl + addr, spadRef + addr, 8) != 0) return "scratchpad bytes at " + std::to_string(addr) + " differ" + at;
		}
		if (m.sawNaN || m.sawSubnormal) return std::string("model itself produced ") + (m.sawNaN ? "NaN" : "a subnormal") + at + " (spec 5.3 claims this cannot happen)";
		if (!vh::st().replaying) {
			opcodeSeen[(c.v2 ? 256 : 0) + w.opcode] = 1;
			int d = w.dst & 7, s = w.src & 7;
			int immc = w.imm32 == 0 ? 0 : (w.imm32 & (w.imm32 - 1)) == 0 ? 1 : w.imm32 == 0x80000000u ? 2 : (w.imm32 >> 31) ? 3 : 4;
			vh::nontrivial(vh::mix(vh::mix(vh::mix(op, d == s), w.mod), immc * 4 + c.v2));
			if (ipc != pc + 1) vh::label("branch-taken");
		}
		pc = mpc;
		++steps;
	}
	if (memcmp(spadImpl, spadRef, RANDOMX_SCRATCHPAD_L3) != 0) { size_t i = 0; while (spadImpl[i] == spadRef[i]) ++i; return "scratchpad differs at offset " + std::to_string(i) + " after the program"; }
	if (!vh::st().replaying) {
		vh::label("steps", steps);
		int cov = 0; for (auto b : opcodeSeen) cov += b;
		vh::st().labels["max:opcode-x-version-covered(of 512)"] = cov;
	}
	return "";
}

