// C20 - RISC-V (RV64GC) JIT output is equivalent to the interpreter.
// The scalar RV64 emitter is compiled for the host; its output and the cross-assembled hand-written runtime are executed by the
// RV64GC instruction-subset emulator (emu/rv64.hpp). Oracle as in C19.
#define RXENV_DEFINE_WRAPPERS
#include "harness/rxenv.hpp"
#include "harness/ssmut.hpp"
#include "gen/progs.hpp"
#include "gen/gens.hpp"
#include "vm_interpreted.hpp"
#include "jit_compiler_rv64.hpp"
#include "emu/rv64.hpp"
#include "soft_aes.h"

using namespace randomx;

static size_t g_lastPages = 0;
extern "C" void* __real_allocMemoryPages(size_t);
extern "C" void* __wrap_allocMemoryPages(size_t n) { g_lastPages = n; return __real_allocMemoryPages(n); }

static rxe::Env env;
static JitCompilerRV64* jit = nullptr; static size_t jitBytes = 0;
static std::vector<uint8_t> gspad(RANDOMX_SCRATCHPAD_L3);
static std::vector<uint8_t> gstack(1 << 16);
static std::map<uint32_t, const char*> traceWords;

static void addCommonRegions(rv64::Cpu& cpu) {
	cpu.regions.push_back({(uintptr_t)jit->getCode(), (uintptr_t)jit->getCode() + jitBytes, false, "code buffer"});
	cpu.regions.push_back({(uintptr_t)gstack.data(), (uintptr_t)gstack.data() + gstack.size(), true, "stack"});
	cpu.regions.push_back({(uintptr_t)&randomx_aes_lut_enc[0][0], (uintptr_t)&randomx_aes_lut_enc[0][0] + 4096, false, "aes enc tables"});
	cpu.regions.push_back({(uintptr_t)&randomx_aes_lut_dec[0][0], (uintptr_t)&randomx_aes_lut_dec[0][0] + 4096, false, "aes dec tables"});
}
static void ensureSshash(uint64_t mut = 0) { static bool done = false; if (!ssmut::apply(env.cache, mut) && done) return; jit->generateSuperscalarHash(env.cache->programs, env.cache->reciprocalCache); done = true; }

static std::string body(const pg::ProgCase& c) {
	int flags = (c.hardAes ? RANDOMX_FLAG_HARD_AES : 0) | (c.fast ? RANDOMX_FLAG_FULL_MEM : 0) | (c.v2 ? RANDOMX_FLAG_V2 : 0);
	randomx_vm* vi = env.vm(flags);
	auto ref = rxe::runInjected(vi, c.prog.data(), c.spadClass, c.spadSeed, c.fprc);
	static InterpretedVmDefault* cfgvm = new InterpretedVmDefault(RANDOMX_FLAG_DEFAULT);
	memcpy((void*)&cfgvm->program, c.prog.data(), rxe::ProgramBytes);
	cfgvm->initialize();
	alignas(64) static Program prog; memcpy((void*)&prog, c.prog.data(), rxe::ProgramBytes);
	jit->setFlags((randomx_flags)flags);
	if (c.fast) jit->generateProgram(prog, cfgvm->config); else { ensureSshash(); jit->generateProgramLight(prog, cfgvm->config, (uint32_t)cfgvm->datasetOffset); }
	alignas(64) RegisterFile greg; memset(&greg, 0, sizeof greg);
	memcpy(greg.a, cfgvm->reg.a, sizeof greg.a);
	memcpy(greg.f, cfgvm->config.eMask, sizeof(cfgvm->config.eMask));   // the aarch64/riscv-only line of CompiledVm::execute()
	MemoryRegisters gmem; gmem.mx = cfgvm->mem.mx; gmem.ma = cfgvm->mem.ma;
	gmem.memory = c.fast ? env.synth.ds.memory + cfgvm->datasetOffset : env.cache->memory;
	rxe::fillScratchpad(gspad.data(), c.spadClass, c.spadSeed);
	rv64::Cpu cpu; memset(cpu.x, 0, sizeof cpu.x); memset(cpu.f, 0, sizeof cpu.f);
	cpu.trace = &traceWords;
	addCommonRegions(cpu);
	cpu.regions.push_back({(uintptr_t)&greg, (uintptr_t)&greg + sizeof greg, true, "register file"});
	cpu.regions.push_back({(uintptr_t)&gmem, (uintptr_t)&gmem + sizeof gmem, false, "memory registers"});
	cpu.regions.push_back({(uintptr_t)gspad.data(), (uintptr_t)gspad.data() + gspad.size(), true, "scratchpad"});
	if (c.fast) cpu.regions.push_back({(uintptr_t)env.synth.ds.memory, (uintptr_t)env.synth.ds.memory + (size_t)DatasetSize, false, "dataset"});
	else cpu.regions.push_back({(uintptr_t)env.cache->memory, (uintptr_t)env.cache->memory + (size_t)CacheSize, false, "cache"});
	static const unsigned frmOf[4] = {0, 2, 3, 1};   // RandomX fprc -> RISC-V frm (RNE, RDN, RUP, RTZ)
	cpu.frm = frmOf[c.fprc & 3];
	cpu.x[10] = (uint64_t)&greg; cpu.x[11] = (uint64_t)&gmem; cpu.x[12] = (uint64_t)gspad.data(); cpu.x[13] = RANDOMX_PROGRAM_ITERATIONS;
	const uint64_t sp0 = (uint64_t)gstack.data() + gstack.size() - 64;
	cpu.x[2] = sp0;
	if (!cpu.run((uint64_t)jit->getProgramFunc(), 150000000ULL)) return "emulated RV64 code faulted: " + cpu.error + " (pc offset " + std::to_string((int64_t)(cpu.pc - (uint64_t)jit->getCode())) + ", after " + std::to_string(cpu.steps) + " instructions)";
	if (cpu.x[2] != sp0) return "stack pointer not restored by the emitted code";
	if (memcmp(greg.r, ref.reg.r, 64) != 0) { int i = 0; while (greg.r[i] == ref.reg.r[i]) ++i; return "r" + std::to_string(i) + " after the RV64 code is " + vh::u64s(greg.r[i]) + ", the interpreter gives " + vh::u64s(ref.reg.r[i]); }
	if (memcmp(greg.f, ref.reg.f, 64) != 0) return "group F registers differ between the RV64 code and the interpreter: " + vh::hex(greg.f, 64) + " vs " + vh::hex(ref.reg.f, 64);
	if (memcmp(greg.e, ref.reg.e, 64) != 0) return "group E registers differ between the RV64 code and the interpreter";
	const uint8_t* sp = (const uint8_t*)vi->getScratchpad();
	if (memcmp(gspad.data(), sp, RANDOMX_SCRATCHPAD_L3) != 0) { size_t i = 0; while (gspad[i] == sp[i]) ++i; return "scratchpad differs at offset " + std::to_string(i & ~7ull) + ": RV64 " + vh::hex(&gspad[i & ~7ull], 8) + " interpreter " + vh::hex(sp + (i & ~7ull), 8); }
	static const int back[8] = {0, 3, 1, 2, -1, -1, -1, -1};
	if (back[cpu.frm & 7] != (int)((ref.mxcsr >> 13) & 3)) return "rounding mode after the program differs: RV64 frm " + std::to_string(cpu.frm) + ", interpreter fprc " + std::to_string((ref.mxcsr >> 13) & 3);
	if (vh::st().replaying) return "";
	pg::Feat f = pg::classify(c.prog.data(), c.nInstr());
	vh::label(std::string("shape:") + pg::shapeName(c.shape)); vh::label(c.fast ? "mode:fast" : "mode:light"); vh::label(c.v2 ? "v2(soft-aes mix)" : "v1");
	int rcp = f.types[pg::IMUL_RCP];
	if (rcp > 10) vh::label("imul_rcp>10(literal-pool-path)"); else if (rcp > 4) vh::label("imul_rcp>4(fp-register-path)");
	if (f.cfround) vh::label("has:cfround"); if (f.cbranch) vh::label("has:cbranch");
	vh::label("guest-instructions", cpu.steps);
	vh::st().labels["max:distinct-instruction-words"] = traceWords.size();
	vh::nontrivial(c.hash());
	return "";
}

struct DCase {
	uint64_t start; uint32_t count; uint64_t mut;   // mut != 0: SuperscalarHash programs with boundary immediates (harness/ssmut.hpp)
	std::string dump() const { return vh::KVWriter()("start", start)("count", count)("mut", mut).str(); }
	static DCase parse(const vh::KV& kv) { return DCase{vh::getu(kv, "start"), (uint32_t)vh::getu(kv, "count"), vh::getu(kv, "mut", 0)}; }
};
static std::string dsBody(const DCase& c) {
	ensureSshash(c.mut);
	std::vector<uint8_t> out((size_t)c.count * 64 + 64, 0xEE);
	rv64::Cpu cpu; memset(cpu.x, 0, sizeof cpu.x); memset(cpu.f, 0, sizeof cpu.f); cpu.trace = &traceWords;
	addCommonRegions(cpu);
	cpu.regions.push_back({(uintptr_t)env.cache, (uintptr_t)env.cache + 8, false, "cache object"});
	cpu.regions.push_back({(uintptr_t)env.cache->memory, (uintptr_t)env.cache->memory + (size_t)CacheSize, false, "cache"});
	cpu.regions.push_back({(uintptr_t)out.data(), (uintptr_t)out.data() + (size_t)c.count * 64, true, "dataset output"});
	cpu.x[10] = (uint64_t)env.cache; cpu.x[11] = (uint64_t)out.data(); cpu.x[12] = c.start; cpu.x[13] = c.start + c.count;
	cpu.x[2] = (uint64_t)gstack.data() + gstack.size() - 64;
	if (!cpu.run((uint64_t)jit->getDatasetInitFunc(), 2000000000ULL)) return "emulated dataset-init code faulted: " + cpu.error;
	for (uint32_t i = 0; i < c.count; ++i) { uint8_t refItem[64]; initDatasetItem(env.cache, refItem, c.start + i); if (memcmp(refItem, &out[(size_t)i * 64], 64) != 0) return "dataset item " + std::to_string(c.start + i) + " from the emitted RV64 code differs from the interpreter item"; }
	for (int i = 0; i < 64; ++i) if (out[(size_t)c.count * 64 + i] != 0xEE) return "emitted dataset-init code wrote past the requested items";
	if (vh::st().replaying) return "";
	vh::label("dataset-items-compared", c.count); vh::label(c.mut ? "superscalar-programs:boundary-immediates" : "superscalar-programs:as-generated"); if (c.mut) vh::label("boundary-immediates-substituted", ssmut::saved().substituted); vh::nontrivial(vh::mix(vh::mix(c.start, c.count), c.mut));
	return "";
}

int main(int argc, char** argv) {
	using namespace rc;
	auto minimizer = [](const pg::ProgCase& c) { return pg::minimize(c, [](const pg::ProgCase& t) { return !body(t).empty(); }); };
	vh::registerCheck<pg::ProgCase>("rv64_prog", [] { return pg::genProgCase({6, 4, 3, 2, 2, 2, 1, 1, 4}, 70, false); }, body, true, minimizer);
	vh::registerCheck<DCase>("rv64_dataset", [] {
		return gen::resize(100, gen::apply([](uint64_t s, int cnt, int kind, int mk, uint64_t ms) { const uint64_t N = DatasetSize / 64; uint64_t start = kind == 0 ? 0 : kind == 1 ? N - cnt : s % (N - cnt); return DCase{start, (uint32_t)cnt, mk == 0 ? 0 : (ms | 1)}; },
			gen::arbitrary<uint64_t>(), gen::inRange(1, 33), gen::inRange(0, 4), gen::inRange(0, 3), gen::arbitrary<uint64_t>()));
	}, dsBody, true);
	int rc_ = vh::harnessMain(argc, argv, [] {
		env.init(true);
		jit = new JitCompilerRV64(); jitBytes = g_lastPages;
		jit->enableWriting();
	});
	if (const char* d = getenv("VERIF_WORDS_DIR")) {
		std::string fn = std::string(d) + "/rv64-w" + std::to_string(vh::st().worker) + ".txt";
		if (FILE* f = fopen(fn.c_str(), "w")) { for (auto& kv : traceWords) fprintf(f, "%08x %s\n", kv.first, kv.second); fclose(f); }
	}
	return rc_;
}
