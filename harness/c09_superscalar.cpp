// C09 - SuperscalarHash programs are well-formed and spec-conformant for every key.
// A: validity predicate (Table 6.1.1 rules, size bounds, address register = longest dependency chain)
// B: instruction-for-instruction equality with model/ref_superscalar (labels = rare generator paths the model took)
// C: executeSuperscalar (interpreter) vs native code from JitCompilerX86::generateSuperscalarHash for generated register inputs
#include "harness/vh.hpp"
#include "gen/gens.hpp"
#include "ref_superscalar.hpp"
#include "superscalar.hpp"
#include "blake2_generator.hpp"
#include "jit_compiler_x86.hpp"
#include "jit_compiler_x86_static.hpp"
#include "reciprocal.h"
#include <sys/mman.h>

using namespace randomx;
using Bytes = std::vector<uint8_t>;

extern "C" void ss_tramp(void* entry, uint64_t* regs, const void* zeroCache);
asm(R"(
.intel_syntax noprefix
.text
.global ss_tramp
ss_tramp:
	push rbx
	push rbp
	push r12
	push r13
	push r14
	push r15
	push rsi
	mov rax, rdi
	mov rdi, rdx
	mov rbx, rdx
	mov r8, [rsi]
	mov r9, [rsi+8]
	mov r10, [rsi+16]
	mov r11, [rsi+24]
	mov r12, [rsi+32]
	mov r13, [rsi+40]
	mov r14, [rsi+48]
	mov r15, [rsi+56]
	call rax
	pop rsi
	mov [rsi], r8
	mov [rsi+8], r9
	mov [rsi+16], r10
	mov [rsi+24], r11
	mov [rsi+32], r12
	mov [rsi+40], r13
	mov [rsi+48], r14
	mov [rsi+56], r15
	pop r15
	pop r14
	pop r13
	pop r12
	pop rbp
	pop rbx
	ret
.att_syntax
)");

struct KCase {
	Bytes key; uint64_t regSeed;
	std::string dump() const { return vh::KVWriter()("key", vh::hex(key.data(), key.size()))("regSeed", regSeed).str(); }
	static KCase parse(const vh::KV& kv) { KCase c; c.key = vh::unhex(vh::gets(kv, "key")); c.regSeed = vh::getu(kv, "regSeed"); return c; }
};

static std::string validity(SuperscalarProgram& p, int idx) {
	std::string at = " (program " + std::to_string(idx) + ")";
	if (p.getSize() < 1 || p.getSize() > 3 * 170 + 2) return "program size " + std::to_string(p.getSize()) + " outside [1, 512]" + at;
	int lat[8] = {0};
	for (unsigned i = 0; i < p.getSize(); ++i) {
		Instruction& in = p(i);
		std::string ai = at + " instruction " + std::to_string(i);
		if (in.opcode >= (int)SuperscalarInstructionType::COUNT) return "opcode " + std::to_string(in.opcode) + " is not one of the SuperscalarHash instructions" + ai;
		if (in.dst > 7 || in.src > 7) return "register index out of r0-r7" + ai;
		auto t = (SuperscalarInstructionType)in.opcode;
		uint32_t imm = in.getImm32();
		switch (t) {
		case SuperscalarInstructionType::ISUB_R: case SuperscalarInstructionType::IXOR_R: case SuperscalarInstructionType::IMUL_R:
			if (in.dst == in.src) return "source equals destination" + ai; break;
		case SuperscalarInstructionType::IADD_RS:
			if (in.dst == in.src) return "IADD_RS source equals destination" + ai;
			if (in.dst == 5) return "IADD_RS with destination r5" + ai; break;
		case SuperscalarInstructionType::IROR_C: if ((imm & 63) == 0) return "IROR_C with zero rotation" + ai; break;
		case SuperscalarInstructionType::IMUL_RCP: if (imm == 0 || (imm & (imm - 1)) == 0) return "IMUL_RCP with zero / power-of-two divisor" + ai; break;
		default: break;
		}
		int ld = lat[in.dst] + 1, ls = in.dst != in.src ? lat[in.src] + 1 : 0;
		lat[in.dst] = std::max(ld, ls);
	}
	int best = 0, reg = 0;
	for (int i = 0; i < 8; ++i) if (lat[i] > best) { best = lat[i]; reg = i; }
	if (lat[p.getAddressRegister()] != best) return "address register r" + std::to_string(p.getAddressRegister()) + " does not have the longest dependency chain (r" + std::to_string(reg) + " has " + std::to_string(best) + ")" + at;
	return "";
}

static const uint8_t* zeroCache() {
	static uint8_t* z = nullptr;
	if (!z) z = (uint8_t*)mmap(nullptr, (size_t)CacheSize, PROT_READ, MAP_PRIVATE | MAP_ANONYMOUS | MAP_NORESERVE, -1, 0);
	return z;
}

static std::string body(const KCase& c) {
	static SuperscalarProgramList* progs = new SuperscalarProgramList();
	Blake2Generator gen(c.key.data(), c.key.size());
	ref::BlakeGen mg(c.key.data(), c.key.size());
	bool rare = false, rarest = false;
	for (int i = 0; i < 8; ++i) {
		generateSuperscalar((*progs)[i], gen);
		std::string v = validity((*progs)[i], i);
		if (!v.empty()) return v;
		ref::SsProgram mp = ref::generateSuperscalar(mg);
		SuperscalarProgram& ip = (*progs)[i];
		if (ip.getSize() != mp.ins.size()) return "program " + std::to_string(i) + " has " + std::to_string(ip.getSize()) + " instructions, the specification generator gives " + std::to_string(mp.ins.size());
		for (unsigned k = 0; k < ip.getSize(); ++k) {
			Instruction& a = ip(k); const ref::SsInstr& b = mp.ins[k];
			if (a.opcode != b.op || a.dst != b.dst || a.src != b.src || a.getImm32() != b.imm32 || (a.opcode == (int)SuperscalarInstructionType::IADD_RS && a.getModShift() != ((b.mod >> 2) & 3)))
				return "program " + std::to_string(i) + " instruction " + std::to_string(k) + " differs from the specification generator: got op " + std::to_string(a.opcode) + " r" + std::to_string(a.dst) + ",r" + std::to_string(a.src) + " imm " + vh::u64s(a.getImm32()) +
					" expected op " + std::to_string(b.op) + " r" + std::to_string(b.dst) + ",r" + std::to_string(b.src) + " imm " + vh::u64s(b.imm32);
		}
		if (ip.getAddressRegister() != mp.addressReg) return "program " + std::to_string(i) + " address register r" + std::to_string(ip.getAddressRegister()) + ", specification r" + std::to_string(mp.addressReg);
		if (!vh::st().replaying) {
			if (mp.srcStalls) { vh::label("path:src-stall/look-ahead"); rare = true; rarest = true; }
			if (mp.dstStalls) { vh::label("path:dst-stall/look-ahead"); rare = true; }
			if (mp.throwAways) { vh::label("path:throw-away"); rare = true; }
			if (mp.r5Special) { vh::label("path:r5-two-register-case"); rare = true; }
			if (mp.chainedMulAllowed) { vh::label("path:chained-mul-allowed"); rare = true; }
			if (mp.aborts) { vh::label("path:decode-buffer-abort"); rare = true; }
			if (mp.stopBySize) { vh::label("stop:size"); rare = true; }
			if (mp.stopByLatency) vh::label("stop:latency");
			if (mp.stopByPorts) { vh::label("stop:ports"); rare = true; }
			if (mp.stopByDecodeCycles) { vh::label("stop:decode-cycles"); rare = true; }
			vh::label("groups-4444", mp.groups4444);
			vh::st().labels["max:program-size"] = std::max<uint64_t>(vh::st().labels["max:program-size"], ip.getSize());
		}
	}
	// ---- execution: interpreter vs native code
	static JitCompilerX86* jit = new JitCompilerX86();
	static SuperscalarProgramList* single = new SuperscalarProgramList();
	std::vector<uint64_t> rcp;
	SuperscalarProgramList& P = *progs;
	for (int i = 0; i < 8; ++i) for (unsigned k = 0; k < P[i].getSize(); ++k) {
		Instruction& in = P[i](k);
		if ((SuperscalarInstructionType)in.opcode == SuperscalarInstructionType::IMUL_RCP) { uint64_t r = randomx_reciprocal(in.getImm32()); in.setImm32((uint32_t)rcp.size()); rcp.push_back(r); }   // as Cache initialisation does
	}
	// locate the entry point: right behind the register-initialisation snippet copied into the code buffer
	const uint8_t* initBegin = (const uint8_t*)&randomx_sshash_init; const uint8_t* initEnd = (const uint8_t*)&randomx_program_end;
	size_t initLen = initEnd - initBegin;
	auto findEntry = [&]() -> uint8_t* {
		uint8_t* code = jit->getCode(); size_t n = jit->getCodeSize();
		for (size_t off = 0; off + initLen <= n; off += 64) if (memcmp(code + off, initBegin, initLen) == 0) return code + off + initLen;
		return nullptr;
	};
	vh::XorShift x(c.regSeed);
	// rounds 3-4: a single program whose IMMEDIATES are replaced by boundary values. Immediates are free 32-bit draws of the key-seeded
	// generator (IROR_C: any non-zero count, IMUL_RCP: any divisor that is neither zero nor a power of two), independent of the instruction
	// sequence, so such a program is still one a key can produce; encodable-immediate corners of the code generator (imm8 forms, sign
	// extension, 0x7f/0x80/0xff.., rotation 32/63, 64-bit reciprocals) have probability ~2^-24 per program from random keys
	static const uint32_t IMMS[] = {0, 1, 0x7f, 0x80, 0x81, 0xff, 0x100, 0x7fff, 0x8000, 0xffff, 0x10000, 0x7fffffffu, 0x80000000u, 0x80000001u, 0xffffff00u, 0xffffff7fu, 0xffffff80u, 0xffffff81u, 0xffffffffu, 0xffff0000u, 0xffff8000u, 0xabcd0000u};
	static const uint32_t DIVS[] = {3, 5, 7, 0xffffffffu, 0x80000001u, 0x7fffffffu, 0xfffffffeu, 0x10001u, 0xffffu, 6, 0xc0000000u, 0xaaaaaaabu};
	SuperscalarProgram mutated;
	for (int round = 0; round < 5; ++round) {
		int which = round == 0 ? -1 : (int)(x.next() % 8);   // -1: chain of all 8, else a single program
		SuperscalarProgramList* L = progs;
		SuperscalarProgram* one = which >= 0 ? &P[which] : nullptr;
		if (round >= 3) {
			mutated = P[which];
			int changed = 0;
			for (unsigned k = 0; k < mutated.getSize(); ++k) {
				Instruction& in = mutated(k);
				if (x.next() % 3) continue;
				switch ((SuperscalarInstructionType)in.opcode) {
				case SuperscalarInstructionType::IADD_C7: case SuperscalarInstructionType::IADD_C8: case SuperscalarInstructionType::IADD_C9:
				case SuperscalarInstructionType::IXOR_C7: case SuperscalarInstructionType::IXOR_C8: case SuperscalarInstructionType::IXOR_C9:
					in.setImm32(IMMS[x.next() % (sizeof IMMS / sizeof IMMS[0])]); ++changed; break;
				case SuperscalarInstructionType::IROR_C: { static const uint32_t c[] = {1, 7, 8, 31, 32, 33, 63}; in.setImm32(c[x.next() % 7]);   /* the generator draws counts 1..63 only */ ++changed; break; }
				case SuperscalarInstructionType::IMUL_RCP: { uint32_t d = DIVS[x.next() % (sizeof DIVS / sizeof DIVS[0])]; in.setImm32((uint32_t)rcp.size()); rcp.push_back(randomx_reciprocal(d)); ++changed; break; }
				default: break;
				}
			}
			one = &mutated;
			if (!vh::st().replaying) vh::label("boundary-immediates-substituted", changed);
		}
		if (which >= 0) { for (int i = 0; i < 8; ++i) (*single)[i].setSize(0); (*single)[0] = *one; L = single; }
		jit->enableWriting();
		jit->generateSuperscalarHash(*L, rcp);
		jit->enableExecution();
		uint8_t* entry = findEntry();
		if (!entry) { vh::label("native-entry-not-found(inconclusive)"); break; }
		for (int t = 0; t < 4; ++t) {
			uint64_t a[8], b[8];
			for (int i = 0; i < 8; ++i) { uint64_t v = x.next(); switch (x.next() % 6) { case 0: v = 0; break; case 1: v = ~0ULL; break; case 2: v = 1ULL << (x.next() % 64); break; case 3: v = 0x8000000000000000ULL; break; default: break; } a[i] = b[i] = v; }
			uint64_t in0[8]; memcpy(in0, a, 64);
			if (which < 0) { for (int i = 0; i < 8; ++i) executeSuperscalar(a, P[i], &rcp); } else executeSuperscalar(a, *one, &rcp);
			ss_tramp(entry, b, zeroCache());
			if (memcmp(a, b, 64) != 0) {
				int r = 0; while (a[r] == b[r]) ++r;
				return std::string("native SuperscalarHash code and interpreter disagree (") + (which < 0 ? "chain of 8" : "program " + std::to_string(which) + (round >= 3 ? " with boundary immediates" : "")) + "): r" + std::to_string(r) + " interpreter=" + vh::u64s(a[r]) + " native=" + vh::u64s(b[r]) + " for inputs " + vh::hex(in0, 64);
			}
			vh::label("native-vs-interpreter-runs");
		}
	}
	if (!vh::st().replaying) {
		vh::label("key-len:" + std::string(c.key.size() == 0 ? "0" : c.key.size() <= 60 ? "1..60" : "61+"));
		if (rarest) vh::label("keys-with-source-operand-starvation");
		if (rarest) vh::nontrivial(vh::fnv(c.key.data(), std::min<size_t>(c.key.size(), 60)));
	}
	return "";
}

int main(int argc, char** argv) {
	using namespace rc;
	vh::registerCheck<KCase>("keys", [] { return gen::resize(100, gen::apply([](Bytes k, uint64_t s) { return KCase{k, s}; }, vg::genKey(), gen::arbitrary<uint64_t>())); }, body);
	return vh::harnessMain(argc, argv);
}
