// C18 - the IMUL_RCP reciprocal is exact for every divisor; zero / power-of-two divisors are no-ops.
// Oracle: floor(2^(63+bitlen(d)) / d) in unsigned __int128, three-way equality with
// randomx_reciprocal and randomx_reciprocal_fast; decoder no-op rule and last-writer table.
#include "harness/vh.hpp"
#include "bytecode_machine.hpp"
#include "reciprocal.h"
#include "program.hpp"

using namespace randomx;

static int bitlen(uint32_t d) { int n = 0; while (d) { ++n; d >>= 1; } return n; }
static uint64_t oracle(uint32_t d) {
	unsigned __int128 num = (unsigned __int128)1 << (63 + bitlen(d));
	return (uint64_t)(num / d);
}
static bool pow2or0(uint32_t d) { return d == 0 || (d & (d - 1)) == 0; }

struct RcpCase {
	uint32_t d;
	std::string dump() const { return vh::KVWriter()("d", d).str(); }
	static RcpCase parse(const vh::KV& kv) { return RcpCase{(uint32_t)vh::getu(kv, "d")}; }
};

static std::string checkOne(uint32_t d) {
	unsigned __int128 num = (unsigned __int128)1 << (63 + bitlen(d));
	unsigned __int128 q = num / d;
	if (q >> 64) return "oracle quotient does not fit (harness bug)";
	// "largest x that keeps the quotient below 2^64": x+1 must overflow
	if (!(((num << 1) / d) >> 64)) return "oracle exponent not maximal (harness bug)";
	uint64_t a = randomx_reciprocal(d);
	uint64_t b = randomx_reciprocal_fast(d);
	if (a != (uint64_t)q) return "randomx_reciprocal(" + vh::u64s(d) + ")=" + vh::u64s(a) + " expected " + vh::u64s((uint64_t)q);
	if (b != (uint64_t)q) return "randomx_reciprocal_fast(" + vh::u64s(d) + ")=" + vh::u64s(b) + " expected " + vh::u64s((uint64_t)q);
	return "";
}

// ---- no-op rule in the decoder -----------------------------------------------------------------
struct NoopCase {
	uint32_t imm; uint8_t opcode, dst, writerOp, writerSrc, mod; uint64_t regval;
	std::string dump() const { return vh::KVWriter()("imm", imm)("opcode", opcode)("dst", dst)("writerOp", writerOp)("writerSrc", writerSrc)("mod", mod)("regval", regval).str(); }
	static NoopCase parse(const vh::KV& kv) {
		return NoopCase{(uint32_t)vh::getu(kv, "imm"), (uint8_t)vh::getu(kv, "opcode"), (uint8_t)vh::getu(kv, "dst"), (uint8_t)vh::getu(kv, "writerOp"),
			(uint8_t)vh::getu(kv, "writerSrc"), (uint8_t)vh::getu(kv, "mod"), vh::getu(kv, "regval")};
	}
};

static Instruction mk(uint8_t op, uint8_t dst, uint8_t src, uint8_t mod, uint32_t imm) {
	Instruction i; i.opcode = op; i.dst = dst; i.src = src; i.mod = mod; i.setImm32(imm); return i;
}

static std::string noopBody(const NoopCase& c) {
	// program: [0] writer of dst (optional), [1] other-register writer, [2] IMUL_RCP dst,imm  [3] CBRANCH dst
	BytecodeMachine bm;
	NativeRegisterFile nreg;
	for (int i = 0; i < 8; ++i) nreg.r[i] = c.regval * (2 * i + 1) + i;
	InstructionByteCode bc[4];
	bm.beginCompilation(nreg);
	bool hasWriter = c.writerOp != 0xff;
	Instruction w = hasWriter ? mk(c.writerOp, c.dst, c.writerSrc, c.mod, 0x1234567) : mk(ceil_ISTORE - 1, c.dst, c.writerSrc, 0, 0) /* ISTORE: writes no register */;
	Instruction o = mk(0 /*IADD_RS*/, (c.dst + 1) & 7, (c.dst + 2) & 7, 0, 0);
	Instruction rcp = mk(c.opcode, c.dst, c.writerSrc, c.mod, c.imm);
	Instruction br = mk(ceil_FSQRT_R /*first CBRANCH opcode*/, c.dst, 0, c.mod, 0);
	bm.compileInstruction(w, 0, bc[0]);
	bm.compileInstruction(o, 1, bc[1]);
	bm.compileInstruction(rcp, 2, bc[2]);
	bm.compileInstruction(br, 3, bc[3]);
	bool np = pow2or0(c.imm);
	if (bc[3].type != InstructionType::CBRANCH) return "harness: opcode is not CBRANCH";
	int expectWriter = hasWriter && bc[0].type != InstructionType::NOP ? 0 : -1;
	// (a writer that decoded to NOP, i.e. ISWAP with src==dst or IMUL_RCP pow2, does not count either)
	if (np) {
		if (bc[2].type != InstructionType::NOP) return "IMUL_RCP with zero/power-of-two immediate did not decode to a no-op";
		if (bc[3].target != expectWriter) return "no-op IMUL_RCP changed the last-writer table: branch target " + std::to_string(bc[3].target) + " expected " + std::to_string(expectWriter);
		// executing it changes nothing
		uint64_t before[8]; memcpy(before, nreg.r, sizeof before);
		int pc = 2; ProgramConfiguration cfg{}; uint8_t spad[64] = {0};
		BytecodeMachine::executeInstruction(bc[2], pc, spad, cfg, RANDOMX_FLAG_DEFAULT);
		if (memcmp(before, nreg.r, sizeof before) != 0 || pc != 2) return "executing the no-op changed registers or pc";
	}
	else {
		if (bc[2].type != InstructionType::IMUL_R) return "IMUL_RCP with a proper divisor did not decode to a multiplication";
		if (bc[2].imm != oracle(c.imm)) return "decoded reciprocal constant differs from floor(2^x/d)";
		if (bc[3].target != 2) return "IMUL_RCP must count as the last writer: branch target " + std::to_string(bc[3].target);
		uint64_t before = nreg.r[c.dst & 7];
		int pc = 2; ProgramConfiguration cfg{}; uint8_t spad[64] = {0};
		BytecodeMachine::executeInstruction(bc[2], pc, spad, cfg, RANDOMX_FLAG_DEFAULT);
		if (nreg.r[c.dst & 7] != before * oracle(c.imm)) return "IMUL_RCP result is not dst * reciprocal";
	}
	return "";
}

int main(int argc, char** argv) {
	using namespace rc;
	vh::registerCheck<RcpCase>("rcp",
		[] { return gen::map(gen::suchThat(vh::genU32(), [](uint32_t d) { return !pow2or0(d); }), [](uint32_t d) { return RcpCase{d}; }); },
		[](const RcpCase& c) -> std::string {
			if (pow2or0(c.d)) return "";
			vh::label("bitlen=" + std::to_string(bitlen(c.d)));
			vh::nontrivial(vh::mix(18, c.d));
			return checkOne(c.d);
		});
	// a run of consecutive divisors around a generated base (covers the neighbourhood of every boundary value)
	vh::registerCheck<RcpCase>("rcp_run",
		[] { return gen::map(vh::genU32(), [](uint32_t d) { return RcpCase{d}; }); },
		[](const RcpCase& c) -> std::string {
			for (uint32_t k = 0; k < 4096; ++k) {
				uint32_t d = c.d - 2048 + k;
				if (pow2or0(d)) continue;
				std::string w = checkOne(d);
				if (!w.empty()) return w;
			}
			vh::label("runs-of-4096");
			vh::nontrivial(vh::mix(1818, c.d));
			return "";
		});
	vh::registerCheck<NoopCase>("noop_decode",
		[] {
			return gen::apply([](int k, bool np, uint32_t other, int opc, int dst, int wsel, int wsrc, int mod, uint64_t rv) {
				NoopCase c;
				c.imm = np ? (k == 32 ? 0u : (1u << k)) : other;
				c.opcode = (uint8_t)(ceil_ISMULH_M + opc);
				c.dst = (uint8_t)dst;
				static const uint8_t writers[] = {0 /*IADD_RS*/, ceil_IADD_M /*ISUB_R*/, ceil_ISUB_M /*IMUL_R*/, ceil_IMUL_RCP /*INEG_R*/, ceil_INEG_R /*IXOR_R*/, ceil_IXOR_M /*IROR_R*/, ceil_IROL_R /*ISWAP_R*/, 0xff /*none*/,
					ceil_ISMULH_M /* IMUL_RCP as writer */, ceil_FSQRT_R /* CBRANCH marks all */};
				c.writerOp = writers[wsel];
				c.writerSrc = (uint8_t)wsrc;
				c.mod = (uint8_t)mod;
				c.regval = rv;
				return c;
			}, gen::inRange(0, 33), gen::arbitrary<bool>(), vh::genU32(), gen::inRange(0, (int)RANDOMX_FREQ_IMUL_RCP), gen::inRange(0, 256), gen::inRange(0, 10), gen::inRange(0, 256), gen::inRange(0, 256), vh::genU64());
		},
		[](const NoopCase& c) -> std::string {
			bool np = pow2or0(c.imm);
			vh::label(np ? "noop-divisor" : "proper-divisor");
			if (np) vh::nontrivial(vh::mix(vh::mix(vh::mix(c.imm, c.dst & 7), c.opcode), c.writerOp));
			return noopBody(c);
		});
	// exhaustive enumeration of this worker's share of [1, 2^32)
	{
		vh::Sub s;
		s.name = "rcp_exhaustive";
		s.runGen = [](int, int, uint64_t) -> bool {
			auto& S = vh::st();
			uint64_t lo = ((uint64_t)1 << 32) * S.worker / S.nworkers, hi = ((uint64_t)1 << 32) * (S.worker + 1) / S.nworkers;
			uint64_t n = 0;
			S.subs["rcp_exhaustive"] = {0, true};
			for (uint64_t d = lo; d < hi; ++d) {
				if (pow2or0((uint32_t)d)) continue;
				std::string w = checkOne((uint32_t)d);
				++n;
				if (!w.empty()) {
					char fn[512];
					snprintf(fn, sizeof fn, "%s/%s-rcp-%llx.txt", S.replayDir.c_str(), S.prop.c_str(), (unsigned long long)d);
					FILE* f = fopen(fn, "w");
					if (f) { fprintf(f, "sub=rcp\nd=0x%llx\n", (unsigned long long)d); fclose(f); }
					S.failures.push_back({fn, w});
					S.subs["rcp_exhaustive"].second = false;
					S.evaluations += n;
					return false;
				}
			}
			S.evaluations += n;
			S.subs["rcp_exhaustive"].first = n;
			S.labels["exhaustive-divisors"] += n;
			// distinct non-trivial == n by construction of the enumeration; recorded through the overflow counter-free path:
			S.labels["exhaustive-distinct"] += n;
			vh::sample("[rcp_exhaustive] d in [" + vh::u64s(lo) + "," + vh::u64s(hi) + ")");
			return true;
		};
		s.runReplay = [](const vh::KV&) -> std::string { return ""; };
		vh::registry().push_back(s);
	}
	return vh::harnessMain(argc, argv);
}
