// C12 - AES generators and fingerprint match FIPS-197 rounds in software and hardware.
// Oracle: model/ref_aes (computed S-box, anchored to FIPS-197 App. B and to the CPU's AES-NI at setup).
#include "harness/vh.hpp"
#include "gen/gens.hpp"
#include "ref_aes.hpp"
#include "aes_hash.hpp"
#include "soft_aes.h"
#include "intrin_portable.h"

using Bytes = std::vector<uint8_t>;

// buffer at a chosen offset (0/16/32/48) from a 64-byte boundary: the functions document only "size is a multiple of 64" and use
// 16-byte aligned vector loads, so every 16-byte aligned placement is an input they accept; canaries on both sides
struct AlignedBuf {
	uint8_t* base; uint8_t* p; size_t n;
	explicit AlignedBuf(size_t n_, unsigned off = 0) : n(n_) { if (posix_memalign((void**)&base, 64, n_ + 256) != 0) abort(); memset(base, 0xEE, n_ + 256); p = base + 64 + (off & 48); }
	~AlignedBuf() { free(base); }
	bool canaryOk() const { for (uint8_t* q = base; q < p; ++q) if (*q != 0xEE) return false; for (uint8_t* q = p + n; q < base + n + 256; ++q) if (*q != 0xEE) return false; return true; }
};

// ---- single rounds -----------------------------------------------------------------------------
struct RoundCase {
	uint8_t st[16], key[16];
	std::string dump() const { return vh::KVWriter().bytes("state", st, 16).bytes("key", key, 16).str(); }
	static RoundCase parse(const vh::KV& kv) { RoundCase c; auto a = vh::unhex(vh::gets(kv, "state")), b = vh::unhex(vh::gets(kv, "key")); a.resize(16); b.resize(16); memcpy(c.st, a.data(), 16); memcpy(c.key, b.data(), 16); return c; }
};
static std::string roundBody(const RoundCase& c) {
	alignas(16) uint8_t se[16], sd[16], he[16], hd[16];
	rx_vec_i128 in = rx_load_vec_i128((const rx_vec_i128*)c.st), k = rx_load_vec_i128((const rx_vec_i128*)c.key);
	// (c.st is not necessarily aligned: copy)
	alignas(16) uint8_t a[16], b[16]; memcpy(a, c.st, 16); memcpy(b, c.key, 16);
	in = rx_load_vec_i128((const rx_vec_i128*)a); k = rx_load_vec_i128((const rx_vec_i128*)b);
	rx_store_vec_i128((rx_vec_i128*)se, soft_aesenc(in, k));
	rx_store_vec_i128((rx_vec_i128*)sd, soft_aesdec(in, k));
	rx_store_vec_i128((rx_vec_i128*)he, rx_aesenc_vec_i128(in, k));
	rx_store_vec_i128((rx_vec_i128*)hd, rx_aesdec_vec_i128(in, k));
	uint8_t re[16], rd[16]; memcpy(re, c.st, 16); memcpy(rd, c.st, 16);
	ref::aesEncRound(re, c.key); ref::aesDecRound(rd, c.key);
	if (memcmp(se, re, 16)) return "soft_aesenc != FIPS-197 round: got " + vh::hex(se, 16) + " expected " + vh::hex(re, 16);
	if (memcmp(sd, rd, 16)) return "soft_aesdec != FIPS-197 inverse round: got " + vh::hex(sd, 16) + " expected " + vh::hex(rd, 16);
	if (memcmp(he, re, 16)) return "hardware aesenc path != FIPS-197 round";
	if (memcmp(hd, rd, 16)) return "hardware aesdec path != FIPS-197 inverse round";
	// aesenc<>/aesdec<> template switch
	rx_store_vec_i128((rx_vec_i128*)se, aesenc<true>(in, k)); rx_store_vec_i128((rx_vec_i128*)he, aesenc<false>(in, k));
	rx_store_vec_i128((rx_vec_i128*)sd, aesdec<true>(in, k)); rx_store_vec_i128((rx_vec_i128*)hd, aesdec<false>(in, k));
	if (memcmp(se, re, 16) || memcmp(he, re, 16)) return "aesenc<> template != FIPS-197 round";
	if (memcmp(sd, rd, 16) || memcmp(hd, rd, 16)) return "aesdec<> template != FIPS-197 inverse round";
	vh::nontrivial(vh::fnv(c.st, 16, vh::fnv(c.key, 16)));
	return "";
}
static rc::Gen<RoundCase> genRound() {
	using namespace rc;
	return gen::apply([](int kind, Bytes a, Bytes b, int pos, uint8_t val, uint8_t fill) {
		RoundCase c;
		a.resize(16); b.resize(16);
		memcpy(c.st, a.data(), 16); memcpy(c.key, b.data(), 16);
		if (kind == 1) { memset(c.st, fill, 16); c.st[pos] = val; memset(c.key, 0, 16); }   // isolates one table entry / byte route
		if (kind == 2) { memset(c.st, val, 16); }
		return c;
	}, gen::inRange(0, 3), vg::genBytesLen(gen::just(16)), vg::genBytesLen(gen::just(16)), gen::inRange(0, 16), gen::arbitrary<uint8_t>(), gen::element<uint8_t>(0, 0x52, 0x63, 0xff));
}

// ---- generators / hash -------------------------------------------------------------------------
struct BufCase {
	uint8_t seed[64]; uint64_t bufSeed; uint32_t size; int bufKind; unsigned off = 0;
	std::string dump() const { return vh::KVWriter().bytes("seed", seed, 64)("bufSeed", bufSeed)("size", size)("bufKind", (uint64_t)bufKind)("off", (uint64_t)off).str(); }
	static BufCase parse(const vh::KV& kv) { BufCase c; auto s = vh::unhex(vh::gets(kv, "seed")); s.resize(64); memcpy(c.seed, s.data(), 64); c.bufSeed = vh::getu(kv, "bufSeed"); c.size = (uint32_t)vh::getu(kv, "size"); c.bufKind = (int)vh::getu(kv, "bufKind"); c.off = (unsigned)vh::getu(kv, "off", 0) & 48; return c; }
	void fillBuf(uint8_t* p) const {
		if (bufKind == 0) { vh::XorShift x(bufSeed); x.fill(p, size); }
		else if (bufKind == 1) memset(p, (int)(bufSeed & 0xff), size);
		else { for (uint32_t i = 0; i < size; ++i) p[i] = (uint8_t)(i * (bufSeed | 1) >> 3); }
	}
};
static rc::Gen<BufCase> genBuf(bool big) {
	using namespace rc;
	return gen::apply([](Bytes seed, uint64_t bs, int blocks, int kind, int off) {
		BufCase c; seed.resize(64); memcpy(c.seed, seed.data(), 64); c.bufSeed = bs; c.size = 64u * (uint32_t)blocks; c.bufKind = kind; c.off = 16u * (unsigned)off; return c;
	}, vg::genBytesLen(gen::just(64)), gen::arbitrary<uint64_t>(),
		gen::resize(100, big ? gen::element(32768, 32767, 4096) : gen::oneOf(gen::element(0, 1, 2, 3, 4, 63, 64, 65, 127, 128, 129), gen::inRange(0, 200))), gen::inRange(0, 3), gen::resize(100, gen::element(0, 0, 1, 2, 3)));
}

static std::string genBody(const BufCase& c) {
	// fill1R / fill4R: soft == hard == model, state advanced identically, nothing written beyond size
	for (int which = 0; which < 2; ++which) {
		alignas(16) uint8_t s1[64], s2[64]; uint8_t sm[64];
		memcpy(s1, c.seed, 64); memcpy(s2, c.seed, 64); memcpy(sm, c.seed, 64);
		AlignedBuf a(c.size, c.off), b(c.size, c.off); Bytes m(c.size + 1);
		if (which == 0) { fillAes1Rx4<true>(s1, c.size, a.p); fillAes1Rx4<false>(s2, c.size, b.p); ref::aesGenerator1R(sm, m.data(), c.size); }
		else { fillAes4Rx4<true>(s1, c.size, a.p); fillAes4Rx4<false>(s2, c.size, b.p); ref::aesGenerator4R(sm, m.data(), c.size); }
		const char* nm = which == 0 ? "fillAes1Rx4" : "fillAes4Rx4";
		if (memcmp(a.p, m.data(), c.size)) return std::string(nm) + "<soft> output != specification";
		if (memcmp(b.p, m.data(), c.size)) return std::string(nm) + "<hard> output != specification";
		// AesGenerator1R's final state is observable (it seeds AesGenerator4R, spec ch.2 step 5). The 4R entry point is
		// re-seeded by its only caller before every use (step 10) and the implementation does not write its state back:
		// demanding an updated state there would assert more than the property/spec do, so only 1R's state is compared.
		if (which == 0 && c.size > 0 && (memcmp(s1, sm, 64) || memcmp(s2, sm, 64))) return std::string(nm) + " final state != specification";
		if (!a.canaryOk() || !b.canaryOk()) return std::string(nm) + " wrote beyond outputSize";
	}
	vh::label("blocks:" + std::string(c.size == 0 ? "0" : c.size == 64 ? "1" : c.size <= 4096 ? "2..64" : c.size < 2097152 ? ">64" : "2MiB"));
	vh::nontrivial(vh::fnv(c.seed, 64, c.size));
	return "";
}

static std::string hashBody(const BufCase& c) {
	AlignedBuf in(c.size, c.off); c.fillBuf(in.p);
	alignas(16) uint8_t h1[64], h2[64]; uint8_t hm[64];
	hashAes1Rx4<true>(in.p, c.size, h1); hashAes1Rx4<false>(in.p, c.size, h2);
	ref::aesHash1R(in.p, c.size, hm);
	if (memcmp(h1, hm, 64)) return "hashAes1Rx4<soft> != specification";
	if (memcmp(h2, hm, 64)) return "hashAes1Rx4<hard> != specification";
	// combined step == fingerprint followed by refill (property: hashAndFill(buf,seed) == (hash1R(buf), fill1R(seed)))
	for (int soft = 0; soft < 2; ++soft) {
		AlignedBuf buf(c.size, c.off); c.fillBuf(buf.p);
		alignas(16) uint8_t st[64], hh[64]; memcpy(st, c.seed, 64);
		if (soft) hashAndFillAes1Rx4<true>(buf.p, c.size, hh, st); else hashAndFillAes1Rx4<false>(buf.p, c.size, hh, st);
		uint8_t sm[64]; memcpy(sm, c.seed, 64); Bytes m(c.size + 1);
		ref::aesGenerator1R(sm, m.data(), c.size);
		if (memcmp(hh, hm, 64)) return std::string("hashAndFillAes1Rx4<") + (soft ? "soft" : "hard") + "> fingerprint != AesHash1R(buffer)";
		if (memcmp(buf.p, m.data(), c.size)) return std::string("hashAndFillAes1Rx4<") + (soft ? "soft" : "hard") + "> refill != AesGenerator1R(seed)";
		if (c.size > 0 && memcmp(st, sm, 64)) return "hashAndFillAes1Rx4 final generator state != specification";
		if (!buf.canaryOk()) return "hashAndFillAes1Rx4 wrote beyond the buffer";
	}
	vh::label(c.size < 4096 ? "size<prefetch-distance" : c.size == 4096 ? "size==prefetch-distance" : "size>prefetch-distance");
	vh::label("buf-kind:" + std::to_string(c.bufKind)); vh::label("buffer-offset-from-64B-boundary:" + std::to_string(c.off));
	if (!in.canaryOk()) return "hashAes1Rx4 wrote to its input buffer / around it";
	vh::nontrivial(vh::fnv(c.seed, 64, vh::mix(c.size, c.bufSeed)));
	return "";
}

// ---- exhaustive T-table check ------------------------------------------------------------------
static bool tablesExhaustive(int, int, uint64_t) {
	auto& S = vh::st();
	const auto& T = ref::aesTables();
	static const uint8_t ME[4][4] = {{2, 3, 1, 1}, {1, 2, 3, 1}, {1, 1, 2, 3}, {3, 1, 1, 2}};
	static const uint8_t MD[4][4] = {{14, 11, 13, 9}, {9, 14, 11, 13}, {13, 9, 14, 11}, {11, 13, 9, 14}};
	uint64_t n = 0; bool ok = true;
	for (int k = 0; k < 4 && ok; ++k) for (int x = 0; x < 256; ++x) {
		uint8_t s = T.sbox[x], is = T.inv[x];
		uint32_t e = 0, d = 0;
		for (int r = 0; r < 4; ++r) { e |= (uint32_t)ref::gmul(s, ME[r][k]) << (8 * r); d |= (uint32_t)ref::gmul(is, MD[r][k]) << (8 * r); }
		n += 2;
		if (randomx_aes_lut_enc[k][x] != e || randomx_aes_lut_dec[k][x] != d) {
			char fn[512]; snprintf(fn, sizeof fn, "%s/%s-tables-%d-%d.txt", S.replayDir.c_str(), S.prop.c_str(), k, x);
			FILE* f = fopen(fn, "w"); if (f) { fprintf(f, "sub=tables\nk=%d\nx=%d\n", k, x); fclose(f); }
			S.failures.push_back({fn, "T-table entry [" + std::to_string(k) + "][" + std::to_string(x) + "] differs from SubBytes+MixColumns"});
			ok = false; break;
		}
	}
	S.evaluations += n; S.subs["tables"] = {n, ok}; S.labels["table-entries-checked"] += n;
	if (S.worker == 0) S.labels["exhaustive-distinct"] += n;
	vh::sample("[tables] all 2 x 4 x 256 T-table entries against SubBytes/MixColumns of the model");
	return ok;
}

int main(int argc, char** argv) {
	vh::registerCheck<RoundCase>("round", genRound, roundBody);
	vh::registerCheck<BufCase>("gen", [] { return genBuf(false); }, genBody);
	vh::registerCheck<BufCase>("hash", [] { return genBuf(false); }, hashBody);
	vh::registerCheck<BufCase>("gen_big", [] { return genBuf(true); }, genBody);
	vh::registerCheck<BufCase>("hash_big", [] { return genBuf(true); }, hashBody);
	vh::Sub s; s.name = "tables"; s.runGen = tablesExhaustive;
	s.runReplay = [](const vh::KV&) -> std::string { return tablesExhaustive(0, 0, 0) ? "" : "table mismatch"; };
	vh::registry().push_back(s);
	return vh::harnessMain(argc, argv);
}
