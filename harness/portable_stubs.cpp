// Portable-variant build (C17): the x86 JIT back-end is not part of the generic C++ fallback path. The VM classes still reference
// JitCompilerX86 (RANDOMX_HAVE_COMPILER follows __x86_64__), so the symbols are provided here; none of them is ever called
// because the shim only creates interpreted VMs and caches without RANDOMX_FLAG_JIT.
#include "jit_compiler_x86.hpp"
#include "reciprocal.h"
#include <cstdlib>
namespace randomx {
	JitCompilerX86::JitCompilerX86() { abort(); }
	JitCompilerX86::~JitCompilerX86() {}
	void JitCompilerX86::generateProgram(Program&, ProgramConfiguration&) { abort(); }
	void JitCompilerX86::generateProgramLight(Program&, ProgramConfiguration&, uint32_t) { abort(); }
	void JitCompilerX86::generateSuperscalarHash(SuperscalarProgramList&, std::vector<uint64_t>&) { abort(); }
	void JitCompilerX86::generateDatasetInitCode() { abort(); }
	size_t JitCompilerX86::getCodeSize() { return 0; }
	void JitCompilerX86::enableWriting() {}
	void JitCompilerX86::enableExecution() {}
	void JitCompilerX86::enableAll() {}
}
extern "C" uint64_t randomx_reciprocal_fast(uint32_t d) { return randomx_reciprocal(d); }
