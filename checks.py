"""Per-property check table (harness, sub-check plans per tier, evidence texts). See DESIGN.md section 6."""
import os

WRAP_AES4 = ['-Wl,--wrap=_Z11fillAes4Rx4ILb0EEvPvmS0_', '-Wl,--wrap=_Z11fillAes4Rx4ILb1EEvPvmS0_']

COMMON_ASSUME = ['g++ 12 / clang 14 compile the repository sources faithfully',
                 'host CPU implements IEEE-754 binary64 + - * / sqrt in the four rounding modes, AES-NI, SSSE3, AVX2']


def H(name, srcs, variant='rel', **kw):
    d = dict(name=name, srcs=srcs, variant=variant)
    d.update(kw)
    return d


CHECKS = {}
# per driver process: two checks (C19 and C20, or two runs of one check) may execute at the same time
WORDS_DIR = os.path.join(os.path.dirname(os.path.abspath(__file__)), 'build', 'run', 'words-%d' % os.getpid())

CHECKS['C18'] = dict(
    level='exploration',
    rule='generated 32-bit divisors (boundary pool 2^k, 2^k+-1, extremes + uniform) that are neither 0 nor a power of two, plus runs of 4096 '
         'consecutive divisors around generated bases; oracle floor(2^(63+bitlen d)/d) in unsigned __int128 compared with randomx_reciprocal and '
         'randomx_reciprocal_fast. No-op rule: (33 no-op divisors) x dst x 8 IMUL_RCP opcodes x 10 preceding writer kinds; decoder must yield NOP and a '
         'following CBRANCH must still target the earlier writer. JIT side of the no-op rule: generated programs with a no-op IMUL_RCP between the '
         'last writer and a CBRANCH, JIT vs interpreter state equality. Non-trivial: distinct proper divisor / distinct run base / no-op divisor case; '
         'both tiers additionally enumerate all 2^32-33 divisors (exhaustive for the reciprocal claim; ~30 s on 16 cores)',
    assumptions=COMMON_ASSUME + ['unsigned __int128 division of the compiler runtime (libgcc __udivti3) is correct'],
    exhaustive={'quick': True, 'thorough': True},
    stages=[
        dict(name='rcp', harness=H('c18', ['harness/c18_reciprocal.cpp']),
             plan={'quick': 'rcp=2000000,rcp_run=4000,noop_decode=200000,rcp_exhaustive=all', 'thorough': 'rcp=50000000,rcp_run=100000,noop_decode=5000000,rcp_exhaustive=all'}),
    ],
)

CHECKS['C11'] = dict(
    level='exploration',
    rule='generated (message, outlen 1..64, key 0..64 bytes) with lengths biased to block boundaries (0,1,127,128,129,255..257,4095..4097 and uniform <=520); '
         'streaming cases add generated cut points incl. empty chunks and cuts at 127/128/129; counter cases inject a 128-bit byte counter shortly before '
         '2^64 / 2^32 on both sides so the carry into t[1] is exercised; invalid-parameter tuples (8 kinds); (input, hash32) pairs for the commitment; '
         'quick: two messages of 2^32+257..2^32+4M bytes each handed over in a single call (one-shot, and update(k)+update(rest)); thorough: 16 of those and 16 chunked > 4 GiB streams. Oracle: independent RFC 7693 model (anchored to the RFC vector and 2000 hashlib cases). '
         'Non-trivial: multi-block message, keyed, or odd outlen (oneshot); >1 chunk and >128 bytes (stream); counter carry (counter); every invalid tuple; every commitment',
    assumptions=COMMON_ASSUME + ['model/ref_blake2b.cpp is a correct reading of RFC 7693 (self-tested against the RFC vector and CPython hashlib at setup)'],
    stages=[
        dict(name='blake', harness=H('c11', ['harness/c11_blake2b.cpp'], model=True), env={'VERIF_CASE_TIMEOUT': '1200'}, replay_timeout=1800,
             plan={'quick': 'oneshot=120000,stream=120000,counter=40000,invalid=40000,commitment=40000,bigshot=2',
                   'thorough': 'oneshot=8000000,stream=8000000,counter=3000000,invalid=400000,commitment=3000000,bigstream=16,bigshot=16'}),
        dict(name='fuzz', kind='fuzz', target='blake2b', harness=H('fz_blake2b', ['fuzz/fuzz_blake2b.cpp'], variant='fuzz', model=True), max_len=2048,
             runs={'quick': 480000, 'thorough': 40000000}),
    ],
)

CHECKS['C12'] = dict(
    level='exploration',
    rule='all 2x4x256 T-table entries enumerated against SubBytes+MixColumns of the model; generated 16-byte (state,key) pairs (uniform, constant, and '
         'single-byte states that isolate one table entry and byte route) through soft_aesenc/dec, the AES-NI path and the aesenc<>/aesdec<> switch vs the '
         'FIPS-197 model; generated 64-byte seeds x sizes 64*{0,1,2,3,4,63,64,65,127..129, uniform<200} (thorough: 4096, 32767, 32768 blocks) through '
         'fillAes1Rx4, fillAes4Rx4, hashAes1Rx4, hashAndFillAes1Rx4 in both template instantiations vs the model of specs.md ch.3, buffers placed at 0/16/32/48 bytes from a 64-byte boundary (every 16-byte aligned placement is accepted by the functions) between canaries, incl. sizes below the '
         '4 KiB prefetch distance, final generator state and a canary behind the buffer. Non-trivial: every distinct generated (state,key) / (seed,size,buffer)',
    assumptions=COMMON_ASSUME + ['model/ref_aes.cpp is a correct reading of FIPS-197 and specs.md ch.3 (self-tested against FIPS-197 App.B, the CPU AESENC/AESDEC instructions and the Blake2b derivation of the printed keys)'],
    stages=[
        dict(name='aes', harness=H('c12', ['harness/c12_aes.cpp'], model=True),
             plan={'quick': 'tables=1,round=2000000,gen=60000,hash=60000,gen_big=64,hash_big=64',
                   'thorough': 'tables=1,round=50000000,gen=1000000,hash=1000000,gen_big=4000,hash_big=4000'}),
        dict(name='fuzz', kind='fuzz', target='aes', harness=H('fz_aes', ['fuzz/fuzz_aes.cpp'], variant='fuzz', model=True), max_len=600,
             runs={'quick': 80000, 'thorough': 10000000}),
    ],
)

PROG_LD = WRAP_AES4
CHECKS['C04'] = dict(
    level='exploration',
    rule='ProgramGen cases (configuration block + 384 instruction words; shapes natural / saturated single type / branchy / store-L3 / sparse / fp-heavy / '
         'rcp-noop; operands biased to src==dst, r4/r5, boundary immediates, mod.cond 0/13/14/15, CFROUND rotate 0/13/14/63) x scratchpad class x entry rounding mode x '
         'v1/v2 x soft/hard AES x secure on/off x fast (synthetic 2080 MiB dataset) / light (real cache). Each program is injected at link time into the real '
         'run() of an InterpretedVm and a CompiledVm; oracle: 256-byte register file, 2 MiB scratchpad and MXCSR control bits equal. '
         'Non-trivial: distinct program containing at least one special-class instruction (src==dst memory form, r4/r5 operand, IMUL_RCP 0/2^k, CFROUND, CBRANCH, L3 store, branch to start)',
    assumptions=COMMON_ASSUME + ['a defect shared by interpreter and JIT is invisible to this differential (C05/C02 cover that side)',
                                 'ld --wrap replaces only the AesGenerator4R call made by VmBase::generateProgram'],
    stages=[
        dict(name='jit', harness=H('c04', ['harness/c04_jit.cpp'], ldflags=PROG_LD),
             plan={'quick': 'jit_vs_interp=12000,jit_light=1500', 'thorough': 'jit_vs_interp=300000,jit_light=30000'},
             env={'VERIF_CASE_TIMEOUT': '60'}, replay_timeout=150),   # one case = one program (ms); a hang is reported after 60 s, not 300 s
        dict(name='fuzz', kind='fuzz', target='jit', harness=H('fz_jit', ['fuzz/fuzz_jit_vs_interp.cpp'], variant='fuzz', ldflags=PROG_LD), max_len=3216,
             runs={'quick': 8000, 'thorough': 600000}),
    ],
)

CHECKS['C07'] = dict(
    level='exploration',
    rule='(1) generated (imm32, mod.cond, d) with d constructed so the first test is taken and carry patterns forced (low bits near 2^b, cimm bits b+1..b+7 ones): '
         'implementation\'s decoded constant/mask == spec cimm/mask, never three taken in a row (also through the executor); (2) generated programs (branchy-biased): '
         'from decoded bytecode alone, every CBRANCH target is before the branch, is the last writer (or -1), loop body has no writer of the branch register and no '
         'branch; JIT jz rel32 read back and compared with the code offset after the last writer; (3) interpreter stepped through its public per-instruction entry over '
         '24 iterations per program with one branch-to-start steered to be taken: executed instructions per iteration <= 3|P|, no forward jump; JIT runs branchy programs '
         'under the C04 equality oracle with a hang watchdog. Non-trivial: first test taken (1); program with >= 1 CBRANCH (2); >= 1 branch actually taken (3)',
    assumptions=COMMON_ASSUME + ['reading of InstructionByteCode (type, idst/isrc identity) as "writes register"; JIT read-back only recognises the 0F 84 rel32 form (else inconclusive, never an alarm)'],
    stages=[
        dict(name='branch', harness=H('c07', ['harness/c07_branch.cpp'], cflags=['-fno-access-control']),
             plan={'quick': 'arith=12000000,structure=60000,dynamic=60000', 'thorough': 'arith=200000000,structure=1000000,dynamic=1000000'}),
        dict(name='jit', harness=H('c04', ['harness/c04_jit.cpp'], ldflags=PROG_LD),
             plan={'quick': 'branchy=8000', 'thorough': 'branchy=200000'}, timeout={'quick': 1800, 'thorough': 6 * 3600},
             env={'VERIF_CASE_TIMEOUT': '60'}, replay_timeout=150),   # a non-terminating JIT program is the violation here: 60 s per-case watchdog
    ],
)

GUARD_LD = ['-Wl,--wrap=posix_memalign', '-Wl,--wrap=free', '-Wl,--wrap=mmap', '-Wl,--wrap=munmap', '-Wl,--wrap=mprotect']
CHECKS['C06'] = dict(
    level='exploration',
    rule='adversarial ProgramGen shapes (saturated: one instruction type with its longest encoding in all 384 slots, store-L3, fp-heavy incl. v2 CFROUND, branchy, natural) with '
         'extreme configuration blocks (dataset offset = max with ma = last line so the first read is the last dataset item; all address-register choices) x all scratchpad classes x '
         'v1/v2 x soft/hard AES (soft-AES v2 epilogue = largest code) x light/fast x secure; ASan+bounds build for C/C++ code, PROT_NONE guard pages directly around scratchpad, '
         'cache, synthetic dataset (ends exactly at a guard page) and every code mapping; checksum of all code emitted before the program (SuperscalarHash routine, epilogue) before/after '
         'each run, emitted code must end before it; API cases place input (0..4097 bytes) and the 32-byte output at guard pages / unaligned between canaries for single and batch calls. '
         'Oracle: no fault, no sanitizer report, checksums and canaries intact, engines agree. Non-trivial: adversarial shape or maximal dataset offset; every distinct placement',
    assumptions=COMMON_ASSUME + ['JIT-emitted code is not sanitizer-instrumented: its accesses are only caught at page granularity by the guard pages (scratchpad 2 MiB, cache 256 MiB and code buffers are page multiples, the dataset is end-aligned)'],
    stages=[
        dict(name='bounds', harness=H('c06', ['harness/c06_bounds.cpp'], variant='asan', ldflags=PROG_LD + GUARD_LD),
             plan={'quick': 'bounds_prog=3200,bounds_api=1200', 'thorough': 'bounds_prog=60000,bounds_api=20000'}),
    ],
)

CHECKS['C05'] = dict(
    level='exploration',
    rule='short programs (1-64 instruction words from ProgramGen: natural / branchy / fp-heavy with boundary-biased operands and up to 8 rapidcheck-generated overrides) on '
         'machine states reachable per spec 4.6 (r = generated 64-bit values, f/e = conversions of generated 8-byte memory values under a generated configuration block, a = '
         'configured), both versions, 4 entry rounding modes, 5 scratchpad classes; implementation decode+execute (compileInstruction/executeInstruction) vs the spec model one '
         'instruction at a time: r0-r7, f, e bit patterns, touched scratchpad bytes, rounding mode, next pc; plus randomx_vm::initialize vs spec 4.5 and the 4.3.1/4.3.2 load '
         'conversions; FP invariants on implementation values (A in [1,2^32), E > 0, no NaN, no subnormal). Stage 2: whole programs (2048 iterations, loop of 4.6.2 incl. v2 mp alias '
         'and AES mix) through the real InterpretedVm vs the model. Non-trivial: step whose (instruction type, src==dst, mod, immediate class, version) tuple is new',
    assumptions=COMMON_ASSUME + ['model/ref_vm.cpp is a correct reading of specs.md ch.4-5; the opcode order is the order of Tables 5.2.1-5.5.1 (pinned; the 10 published digests depend on it)'],
    stages=[
        dict(name='step', harness=H('c05', ['harness/c05_step.cpp'], model=True, cflags=['-fno-access-control']),
             plan={'quick': 'step=60000', 'thorough': 'step=3000000'}),
        dict(name='fuzz', kind='fuzz', target='step', harness=H('fz_step', ['fuzz/fuzz_step_vs_model.cpp'], variant='fuzz', model=True, cflags=['-fno-access-control']), max_len=800,
             runs={'quick': 240000, 'thorough': 6000000}),
        dict(name='prog', harness=H('c05p', ['harness/c05_prog.cpp'], model=True, ldflags=PROG_LD),
             plan={'quick': 'prog_vs_model=480', 'thorough': 'prog_vs_model=10000'}),
    ],
)

CHECKS['C09'] = dict(
    level='exploration',
    rule='generated keys (lengths 0..500, only the first 60 bytes seed the generator) -> the 8 SuperscalarHash programs from generateSuperscalar; (A) validity predicate: size in [1,512], '
         'only the 14 encodings of the ten instruction kinds, registers 0-7, Table 6.1.1 operand rules, address register = longest dependency chain recomputed from the instruction list; '
         '(B) instruction-for-instruction equality with the model generator; the model reports which rare paths it took (operand stall / look-ahead, throw-away, r5 two-register case, '
         'chained multiplication allowed, stop by size/ports); (C) generated r0-r7 (boundary-biased) through executeSuperscalar and through the native code of '
         'JitCompilerX86::generateSuperscalarHash (entered behind its located register-init prologue, zero cache) for the chain of 8, for single programs, and for single programs whose immediates were replaced by boundary values (imm8/sign-extension corners 0x7f/0x80/0xff/0xffffff7f/0xffffff80.., rotation counts 1/31/32/33/63, extreme divisors; immediates are free draws of the key-seeded generator, so these are still programs a key can produce - encodable-immediate corners of the code generator have probability ~1/20000 per key otherwise). '
         'Non-trivial: key (distinct in its first 60 bytes) with at least one program that hit source-operand starvation, the least frequent path observed (measured: ~12% of programs; throw-away, destination stall, chained-mul and the r5 case turn out to occur in most programs)',
    assumptions=COMMON_ASSUME + ['model/ref_superscalar.cpp: the generator details specs.md 6.3 leaves open (draw order, look-ahead 4, throw-away limit 256) are pinned to upstream; validated by the 10 published digests'],
    stages=[
        dict(name='keys', harness=H('c09', ['harness/c09_superscalar.cpp'], model=True),
             plan={'quick': 'keys=48000', 'thorough': 'keys=2000000'}),
    ],
)

CHECKS['C10'] = dict(
    level='exploration',
    rule='(a) reduced Argon2d instances through the entry points cache initialisation uses (randomx_argon2_initialize, randomx_argon2_fill_memory_blocks, instance.impl in {ref, SSSE3, AVX2}): '
         'password length 0..300 (incl. > 64 = multi-block initial hash), salt 8..32 bytes, m = 4k blocks for k in {2,3,4,8,16,64,512} or uniform 2..64, passes 1..4, lanes 1, version 0x13; '
         '(b) full 256 MiB caches through randomx_alloc_cache/init_cache with the three Argon2 flags for generated keys; (c) re-key sequence K1 -> K2 -> empty key -> K1 on one cache object; the empty key / password is passed both as (NULL, 0) and as (non-NULL pointer, 0). '
         'Oracle: memory == independent RFC 9106 Argon2d fill (finalisation omitted), hence the three implementations are byte-identical and a re-keyed cache carries no trace of the previous key; '
         'canary behind the reduced memory array. Non-trivial: every distinct (password, salt, m, t) / key',
    assumptions=COMMON_ASSUME + ['model/ref_argon2.cpp is a correct reading of RFC 9106 (self-tested against the RFC Argon2d vector incl. secret, associated data, 4 lanes and finalisation)'],
    stages=[
        dict(name='argon', harness=H('c10', ['harness/c10_argon2.cpp'], model=True),
             plan={'quick': 'reduced=1600,full=16', 'thorough': 'reduced=200000,full=256'}),
    ],
)

CHECKS['C08'] = dict(
    level='exploration',
    rule='per worker one generated key (lengths 0,1,12,32,60,61,75,200 by seed); generated windows [s, s+len) with len in {0..9, 4k, 4k+1..3, uniform <= 4096, 65539, 100000} and s in {0, 1..3, '
         'N-len, near the end, uniform}, cut into consecutive (start,count) calls at generated cut points, calls dealt to 1-16 threads, cache flags {default = interpreted initialiser, JIT = compiled '
         'initialiser}. Before the calls every dataset page is PROT_NONE except those overlapping a request, which are canary-filled (the dataset ends exactly at a PROT_NONE page). '
         'Oracle: every requested item == initDatasetItem (light path) and, for all items of small requests and a sample of large ones, == the specification model; canaries outside the requests intact; no fault. '
         'Thorough adds two complete 2 GiB datasets (compiled vs interpreted, random 16-thread partitions) compared byte for byte and sampled against the model. '
         'Non-trivial: call set with count<4, count%4!=0, count==0, a multiple of 4 above 4, the last item, or more than one thread',
    assumptions=COMMON_ASSUME + ['model/ref_superscalar.cpp + ref_argon2.cpp as reading of specs.md ch.6-7 (validated by the published digests)', 'page-granular detection of stray stores outside opened pages, byte-granular inside them'],
    stages=[
        dict(name='ranges', harness=H('c08', ['harness/c08_dataset.cpp'], model=True),
             plan={'quick': 'ranges=6000', 'thorough': 'ranges=150000,full=all'}),
    ],
)

CHECKS['C01'] = dict(
    level='exploration',
    rule='generated (key, 8 inputs) x both versions; for each: 12 VM classes {interpreter, JIT, JIT+SECURE} x {soft, hard AES} x {light, fast}, fast VMs over two complete datasets (interpreted and compiled '
         'initialiser, each filled by 16 threads over a generated partition incl. ranges of 1-3 items and the last item, from caches of rotating Argon2 implementation), light JIT VMs over every '
         'cache variant {default, JIT} x {ref, SSSE3, AVX2}; single-call API and first/next/last API alternate per configuration. Sweep: 256 further seed-derived inputs x both versions per configuration through six classes (light interpreter = reference, light JIT, light secure JIT hard-AES, fast interpreter, fast JIT hard-AES, fast secure JIT) on 8 threads with their own VMs. Oracle: every digest equals the digest of the light interpreter '
         'with software AES over the default/reference cache (n-version equality). Non-trivial: distinct (configuration != reference, key, input, version)',
    assumptions=COMMON_ASSUME + ['LARGE_PAGES is outside the property quantifier (covered under C15)', 'a defect common to all configurations is invisible to this differential (C02 covers it)'],
    stages=[
        dict(name='configs', harness=H('c01', ['harness/c01_configs.cpp']), workers={'quick': 2, 'thorough': 4}, env={'VERIF_CASE_TIMEOUT': '1800'}, replays=2, replay_timeout=1800,
             plan={'quick': 'configs=2', 'thorough': 'configs=32'}),
    ],
)

GARBAGE_LD = ['-Wl,--wrap=posix_memalign', '-Wl,--wrap=free']
CHECKS['C03'] = dict(
    level='exploration',
    rule='generated API histories (3-line productive prologue, in a third of the histories continued by the rebinding scenario hash / release the bound cache / allocate+initialise a new cache object with the same key at the same address / bind / hash on a VM of a generated class, in the dataset histories also by dataset allocation/initialisation, a fast-mode VM of a generated class and hash / version switch / hash / switch back / hash, + 0..100 generated commands over AllocCache/InitCache/ReleaseCache/AllocDataset/InitDataset(16 threads)/ReleaseDataset/CreateVm/DestroyVm/'
         'SetCache/SetDataset/SetV2/ClearV2/Hash/BatchFirst/Next/Last/Churn; operands are indices resolved modulo the live objects; a command whose documented precondition does not hold is skipped and counted) '
         'over 5 keys (a generated key, the empty key, one > 60 bytes, and two relatives of the first: same length differing only in the last byte behind an embedded zero byte, and a zero-extended / prefix version), 6 generated inputs, all light VM classes (+ fast VMs in the dataset histories), both versions, under an interposed allocator that pre-fills every '
         'library block with a generated pattern, poisons and quarantines freed blocks and hands big blocks (scratchpad, cache, dataset) out again at the same address. Oracle: every digest == digest of a fresh cache + fresh VM; '
         'a batch returns, in order, the single-call digests. Non-trivial: history with a compared hash preceded on the same VM/cache by another input, a re-key + rebind, a bind to another cache object, a same-key '
         'different-object rebind, release-while-bound then rebind, a v1<->v2 switch, or a batch step',
    assumptions=COMMON_ASSUME + ['the documented contract as encoded in the harness preconditions (randomx.h): set_cache after every re-key, no interleaving inside a batch, objects alive and initialised',
                                 'any conforming allocator may return a freed address again and leaves fresh memory indeterminate'],
    stages=[
        dict(name='history', harness=H('c03', ['harness/c03_history.cpp'], ldflags=GARBAGE_LD),
             plan={'quick': 'history=48:60,history_ds=4:30', 'thorough': 'history=1280:100,history_ds=32:40'}, env={'VERIF_CASE_TIMEOUT': '600'}),
    ],
)

CHECKS['C16'] = dict(
    level='exploration',
    rule='the C03 history generator restricted to JIT VMs created with RANDOMX_FLAG_SECURE (soft/hard AES, light and - in the dataset histories - fast), caches with and without JIT (compiled dataset '
         'initialiser), re-keying, rebinding, v1<->v2 switches, batches, releases; every mmap/mprotect/munmap the library issues is interposed and logged. Oracle: no mapping or protection change ever '
         'requests PROT_WRITE|PROT_EXEC, no library-owned region is W+X after any command, /proc/self/maps shows no rwx mapping overlapping a library-owned range; digests still equal the fresh-object oracle. '
         'Non-trivial: history in which a secure VM hashes (code generated and executed) after at least one of re-key/rebind/version switch/batch',
    assumptions=COMMON_ASSUME + ['the interposed mmap/mprotect log sees every request of the statically linked library; the executable stack caused by the missing .note.GNU-stack in jit_compiler_x86_static.S is not a library-owned code buffer and is ignored'],
    stages=[
        dict(name='secure', harness=H('c16', ['harness/c03_history.cpp'], cflags=['-DWITH_PROT_ORACLE'], ldflags=GARBAGE_LD + ['-Wl,--wrap=mmap', '-Wl,--wrap=munmap', '-Wl,--wrap=mprotect']),
             plan={'quick': 'secure=48:60,secure_ds=4:30', 'thorough': 'secure=1280:100,secure_ds=32:40'}, env={'VERIF_CASE_TIMEOUT': '600'}),
    ],
)

CHECKS['C13'] = dict(
    level='exploration',
    rule='generated entry MXCSR words (all 2^16 control/status combinations: rounding x FTZ x DAZ x 6 exception masks x 6 sticky flags, plus corners 0x1F80, 0x9FC0, 0, 0xFFFF, all-unmasked) x 15 VM configurations '
         '(interpreter/JIT/secure JIT x soft/hard AES x v1/v2, light; plus 5 fast-mode classes over a synthetic dataset) x generated inputs; single call: digest == digest under the default state and MXCSR after == MXCSR before on all 16 bits, for two hashes back to back '
         'under different entry states; pipelined API: independent entry state before each of first/next/last, digests == default-state digests. '
         'Non-trivial: entry state != default AND the last program of that hash ends in a non-default rounding mode (measured by reading MXCSR after a _last on the same input) - the combination that defeats "the restore masks a missing reset"',
    assumptions=COMMON_ASSUME + ['MXCSR read with stmxcsr immediately around the call; the harness does no floating-point work while exceptions are unmasked'],
    stages=[
        dict(name='fpenv', harness=H('c13', ['harness/c13_fpenv.cpp']),
             plan={'quick': 'fpenv=640', 'thorough': 'fpenv=30000'}),
    ],
)

FAULT_LD = ['-Wl,--wrap=posix_memalign', '-Wl,--wrap=free', '-Wl,--wrap=mmap', '-Wl,--wrap=munmap']
CHECKS['C15'] = dict(
    level='fault_enumeration',
    rule='enumerated completely: creating call in {randomx_alloc_cache, randomx_alloc_dataset, randomx_create_vm} x every supported flag combination (cache: JIT x LARGE_PAGES; dataset: LARGE_PAGES; VM: '
         '{interpreter, JIT, JIT+SECURE} x HARD_AES x FULL_MEM x LARGE_PAGES x V2) x huge-page behaviour {available (simulated), unavailable}; the fault-free run counts the N requests the call issues '
         '(aligned allocation, operator new from library code, page mapping, large-page mapping), then for k = 1..N exactly the k-th request fails the way the real facility fails, in a child process per plan. '
         'Oracle: result NULL, live heap blocks / heap bytes / mapped bytes == before the call, no abnormal termination, then the same call fault-free succeeds, the object works (digest == fault-free digest) and '
         'create/use/release returns to the initial live set (incl. munmap length rule for huge pages), where use = caches re-initialised with keys of growing, shrinking and equal length, a VM created over them, re-key + rebind twice; VMs hashed through the single-call and the pipelined API and rebound twice; dataset ranges initialised - every request made during the use phase is accounted. Generated: sequences of up to 12 plans with generated fault indices and repeats (multi-fault histories, '
         'create/use/destroy cycles): live set at the end == start. Non-trivial: plan failing a request other than the first (partially constructed object); cycle with >= 2 faults',
    assumptions=COMMON_ASSUME + ['the exception object allocation of libstdc++ (__cxa_allocate_exception, plain malloc) is not interposed; every operator new, posix_memalign and mmap during the call is',
                                 'huge pages are simulated (flag stripped, kernel munmap rule applied as measured on this kernel)'],
    exhaustive={'quick': True, 'thorough': True},
    stages=[
        dict(name='faults', harness=H('c15', ['harness/c15_lifecycle.cpp'], ldflags=FAULT_LD), env={'VERIF_CASE_TIMEOUT': '900'}, replay_timeout=1800,
             plan={'quick': 'faults=all,cycles=160:40', 'thorough': 'faults=all,cycles=1200:100'}),
    ],
)

CHECKS['C14'] = dict(
    level='exploration',
    rule='generated workloads of 2-8 threads, each a list of up to 7 operations from {create own VM (14 flag sets incl. HARD_AES, JIT, SECURE, v2; light mode over the shared cache - which in about half of the workloads is freshly created and keyed with no VM attached yet - or fast mode over a shared complete dataset), hash, pipelined batch, destroy, '
         'randomx_init_dataset on a disjoint generated range of the shared (sparse) dataset from the shared cache (interpreted or compiled initialiser, ranges of 1..1016 items, unaligned starts, the last items), '
         'private cache alloc/init/re-key/release, generated yields/spins}; all threads start together. A third sub-check generates dataset-initialisation-heavy workloads (4-8 threads, ~7 short ranges of 1..12 items each, interpreted initialiser whose stores ThreadSanitizer sees). Ranges of one workload are disjoint by construction (exactly one may reach the last item). Oracle: every digest and sampled dataset item equals the sequential result (expectations come from a private cache / an interpreter VM so that the oracle shares no lazily built state with the objects under test; the fast-mode dataset has synthetic content, which the equality oracle does not care about); the ThreadSanitizer build '
         '(happens-before detection, independent of the observed timing) reports no data race during the workload. Non-trivial: workload with >= 2 threads and >= 2 different operation kinds on shared objects',
    assumptions=COMMON_ASSUME + ['stores made by JIT-emitted code are not instrumented (byte-equality oracle only there)', 'TSan sees races between accesses within its history window; liveness is out of reach',
                                 'interleavings are produced by the OS scheduler over generated yields, not enumerated'],
    stages=[
        dict(name='tsan', harness=H('c14', ['harness/c14_threads.cpp'], variant='tsan'), workers={'quick': 8, 'thorough': 8}, env={'VERIF_CASE_TIMEOUT': '900', 'TSAN_OPTIONS': 'halt_on_error=0:report_signal_unsafe=0:history_size=7'},
             plan={'quick': 'workload=40:30,workload_dsinit=8:30', 'thorough': 'workload=240:60,workload_owncache=48:30,workload_dsinit=64:60'}),
    ],
)

CHECKS['C17'] = dict(
    level='exploration',
    rule='the tree built a second time with -U__SSE__ -U__SSE2__ -U__AES__ -U__SSSE3__ -U__AVX2__ -U__SIZEOF_INT128__ (struct-based rx_vec_* emulation, fenv rounding, 32x32 mulh/smulh, shift rotates, '
         'fegetenv/fesetenv save-restore, software-only AES) as a shared object next to the default build. Function level: generated boundary-biased operands through mulh, smulh, rotr, rotl, packed '
         'int->double conversion and the FP operations add/sub/mul/div/sqrt/swap/xor under the four rounding modes (operands shaped like group F/E/A values): portable == default == __int128 / default SSE2. '
         'Program level: ProgramGen cases through both builds\' real InterpretedLightVm::run (register file, 2 MiB scratchpad, final rounding mode). Hash level: generated (key, input, version): digests and 64 '
         'dataset items per key equal; fegetround() after a single-call hash == entry mode for all four modes. Non-trivial: every distinct generated operand tuple / program / (key,input,version)',
    assumptions=COMMON_ASSUME + ['-U of the feature macros selects exactly the code paths a platform without those features compiles (the compiler still emits SSE2 scalar instructions for double arithmetic, as any IEEE-754 platform would)',
                                 'big-endian byte order paths of blake2/endian.h are not reachable on this host'],
    stages=[
        dict(name='portable', harness=H('c17', ['harness/c17_portable.cpp'], ldflags=PROG_LD), env=lambda V: {'VERIF_PORTABLE_SO': V.ensure_portable_so()},
             plan={'quick': 'functions=1600000,programs=640,hashes=32', 'thorough': 'functions=100000000,programs=24000,hashes=960'}),
    ],
)

CHECKS['C19'] = dict(
    level='exploration',
    rule='ProgramGen cases (all shapes incl. IMUL_RCP-saturated programs that exhaust the 12 literal registers and switch to ldr-literal, boundary immediates, src==dst forms, CBRANCH/CFROUND-heavy) x fast (synthetic dataset) / '
         'light (emitted SuperscalarHash code over a real cache) x v1/v2 x hard/soft AES x entry rounding mode; the A64 emitter runs on the host, its output plus the cross-assembled hand-written runtime is executed by an AArch64 '
         'instruction-subset emulator with every access checked against the known regions. Oracle: r/f/e registers, 2 MiB scratchpad and final rounding mode == host interpreter on the same injected program. '
         'Dataset: generated (start,count) ranges through the emitted randomx_init_dataset_aarch64 == initDatasetItem, over the SuperscalarHash programs of the key and over variants whose immediates were replaced by boundary values (movz/movn/movk split corners, harness/ssmut.hpp). Non-trivial: every distinct program / range',
    assumptions=COMMON_ASSUME + ['emu/a64.hpp implements the Arm ARM semantics of the ~60 instruction forms used (every distinct executed word is cross-checked against llvm-objdump\'s decoding at the end of a run; unknown encodings are hard errors)',
                                 'the one aarch64-only line outside the back-end (copy of eMask into reg.f in CompiledVm::execute) is performed by the harness and therefore not under test',
                                 'cache maintenance / instruction-cache coherence is outside the emulated model'],
    pre=lambda: _words_clean(), post=lambda V, p, t: _post_c19(V, p, t),
    stages=[
        dict(name='a64', env={'VERIF_WORDS_DIR': WORDS_DIR}, harness=H('c19', ['harness/c19_a64.cpp', 'emu/a64_host.cpp'], model=True, cflags=['-fno-access-control'], ldflags=PROG_LD + ['-Wl,--wrap=allocMemoryPages'], extra_objs=[lambda V: V.ensure_cross_blob('a64')]),
             plan={'quick': 'a64_prog=640,a64_dataset=128', 'thorough': 'a64_prog=12000,a64_dataset=2400'}),
    ],
)



def _words_clean():
    import shutil
    shutil.rmtree(WORDS_DIR, ignore_errors=True)
    os.makedirs(WORDS_DIR, exist_ok=True)


def _objdump_crosscheck(arch):
    """Every distinct instruction word the emulator executed is disassembled by llvm-objdump; the mnemonic must match the
    emulator's own decoding. Returns (n_words, list of mismatches)."""
    import glob, subprocess, struct, re
    words = {}
    for f in glob.glob(os.path.join(WORDS_DIR, arch + '-w*.txt')):
        for line in open(f):
            p = line.split()
            if len(p) == 2:
                words[int(p[0], 16)] = p[1]
    if not words:
        return 0, ['no instruction words recorded']
    keys = sorted(words)
    asm = os.path.join(WORDS_DIR, arch + '.S')
    obj = os.path.join(WORDS_DIR, arch + '.o')
    if arch == 'a64':
        open(asm, 'w').write('.text\n' + ''.join('.inst 0x%08x\n' % k for k in keys))
        subprocess.run(['clang', '--target=aarch64-linux-gnu', '-march=armv8-a+crypto', '-c', asm, '-o', obj], check=False)
        cmd = ['llvm-objdump', '-d', '--mattr=+crypto,+neon', '-M', 'no-aliases', obj]
    else:
        open(asm, 'w').write('.text\n.option norvc\n' + ''.join(('.2byte 0x%04x\n' % k) if (k & 3) != 3 else ('.4byte 0x%08x\n' % k) for k in keys))
        subprocess.run(['clang', '--target=riscv64-linux-gnu', '-march=rv64gc', '-mno-relax', '-c', asm, '-o', obj], check=False)
        cmd = ['llvm-objdump', '-d', '--mattr=+m,+a,+f,+d,+c', '-M', 'no-aliases', obj]
    out = subprocess.run(cmd, stdout=subprocess.PIPE, stderr=subprocess.STDOUT, text=True).stdout
    mn = []
    for line in out.splitlines():
        m = re.match(r'^\s*[0-9a-f]+:\s+((?:[0-9a-f]{2} )+|[0-9a-f]{4,8}\s)\s*(\S+)', line)
        if m:
            mn.append(m.group(2))
    bad = []
    if len(mn) != len(keys):
        return len(keys), ['objdump produced %d lines for %d words' % (len(mn), len(keys))]
    # architectural aliases llvm-objdump prints even with -M no-aliases: (emulator's canonical name, printed alias)
    alias_pairs = {('movn', 'mov'), ('movz', 'mov'), ('orr', 'mov'), ('add', 'mov'), ('ins', 'mov'), ('umov', 'mov'), ('ror', 'rorv'), ('ror', 'ror'), ('lsl', 'lslv'), ('lsr', 'lsrv'), ('asr', 'asrv'), ('extr', 'ror'),
                   ('bfm', 'bfi'), ('bfm', 'bfxil'), ('ubfm', 'lsr'), ('ubfm', 'lsl'), ('ubfm', 'ubfx'), ('ubfm', 'uxtw'), ('sbfm', 'asr'), ('sbfm', 'sxtw'), ('madd', 'mul'), ('sub', 'neg'), ('subs', 'cmp'), ('ands', 'tst'),
                   ('c.slli', 'c.slli64')}   # c.slli with shamt 0 is the RV64C hint encoding: rd unchanged either way
    for k, o in zip(keys, mn):
        mine = re.sub(r'\(.*\)', '', words[k])

        ok = (o == mine) or (mine, o) in alias_pairs or (mine == 'b.cond' and o.startswith('b.')) or (mine == 'prfm' and o.startswith('prfm'))
        if not ok:
            bad.append('%08x: emulator decodes %s, llvm-objdump says %s' % (k, words[k], o))
    return len(keys), bad


def _post_c20(V, prop, tier):
    n, bad = _objdump_crosscheck('rv64')
    return dict(label='emulator-decode-crosschecked-words', count=n, problems=bad[:10])


def _post_c19(V, prop, tier):
    n, bad = _objdump_crosscheck('a64')
    return dict(label='emulator-decode-crosschecked-words', count=n, problems=bad[:10])


CHECKS['C20'] = dict(
    level='exploration',
    rule='ProgramGen cases (all shapes incl. IMUL_RCP-saturated programs that walk the integer-register / FP-register / literal-pool paths at 4 and 10 reciprocals and both halves of the 494-entry pool, CBRANCH distances selecting '
         'c.beqz / beq / c.bnez+jal, CFROUND with and without rotation, boundary immediates for the lui/addiw materialisation) x fast / light x v1/v2 (soft-AES mix) x entry rounding mode; the scalar RV64 emitter (hasRVV shimmed to false) runs on the '
         'host, its output plus the cross-assembled runtime is executed by an RV64GC instruction-subset emulator with region-checked memory. Oracle: r/f/e registers, scratchpad and final rounding mode == host interpreter; '
         'emitted dataset-init code == initDatasetItem for generated ranges, over the SuperscalarHash programs of the key and over variants whose immediates were replaced by boundary values (lui/addi split corners around 0x800, harness/ssmut.hpp). Non-trivial: every distinct program / range',
    assumptions=COMMON_ASSUME + ['emu/rv64.hpp implements the RISC-V unprivileged ISA semantics of the RV64IMD+Zicsr+C forms used (decode of every executed word cross-checked against llvm-objdump; unknown encodings are hard errors)',
                                 'built without Zba/Zbb (the #ifdef paths for those extensions are not compiled); vector back-end out of scope per the property',
                                 'fence.i / instruction-cache coherence is outside the emulated model'],
    pre=lambda: _words_clean(), post=lambda V, p, t: _post_c20(V, p, t),
    stages=[
        dict(name='rv64', env={'VERIF_WORDS_DIR': WORDS_DIR}, harness=H('c20', ['harness/c20_rv64.cpp', 'emu/rv64_host.cpp'], model=True, cflags=['-fno-access-control'], ldflags=PROG_LD + ['-Wl,--wrap=allocMemoryPages'], extra_objs=[lambda V: V.ensure_cross_blob('rv64')]),
             plan={'quick': 'rv64_prog=640,rv64_dataset=128', 'thorough': 'rv64_prog=12000,rv64_dataset=2400'}),
    ],
)

C02_AUX = os.path.join(os.path.dirname(os.path.abspath(__file__)), 'build', 'run', 'c02-digests-%d' % os.getpid())


def _c02_clean():
    import glob
    os.makedirs(os.path.dirname(C02_AUX), exist_ok=True)
    for f in glob.glob(C02_AUX + '.w*'):
        os.remove(f)


def _scratch_cleanup():
    import glob, shutil
    shutil.rmtree(WORDS_DIR, ignore_errors=True)
    for f in glob.glob(C02_AUX + '*'):
        try:
            os.remove(f)
        except OSError:
            pass


import atexit
atexit.register(_scratch_cleanup)


CHECKS['C02'] = dict(
    level='exploration',
    rule='generated (key, input, version): key lengths {0,1,12,31,32,59,60,61,63,64,65,127..129,200,500} and uniform <= 96 (keys > 60 bytes feed Argon2 whole, BlakeGenerator truncated), '
         'input lengths {0,1,55,63..65,76,127..129,255..257,1000,4095..4097} and uniform <= 300, contents uniform/constant/counter; oracle: randomx_calculate_hash through a light JIT VM '
         '(and a light interpreter VM for two of the ten inputs per key) == the independent executable specification (model/ref_randomx); then the same cases are hashed by differently compiled '
         'builds (g++ -O1 with asserts, clang ASan) in separate processes and must reproduce the specification digests (fixed pure function across runs, processes, builds). On mismatch '
         'the check says whether cache, SuperscalarHash programs, dataset items or the VM/driver deviates. Non-trivial: every distinct (key,input,version) - none of the 10 suite vectors is generated',
    assumptions=COMMON_ASSUME + ['model/ref_*.cpp is a correct reading of specs.md ch.2-7 (self-test: RFC 7693/9106 vectors, FIPS-197, hashlib, AES-NI, all 10 published digests)',
                                 'rare encodings (probability ~2^-32 per instruction) are not reached through the hash function; C04/C05/C18 choose programs directly'],
    pre=_c02_clean,
    stages=[
        dict(name='spec', harness=H('c02', ['harness/c02_spec.cpp'], model=True, cflags=['-DWITH_MODEL']), args=['--aux', C02_AUX],
             plan={'quick': 'spec=32', 'thorough': 'spec=240'}),
        dict(name='chk', harness=H('c02x', ['harness/c02_spec.cpp'], variant='chk'), args=['--aux', C02_AUX],
             plan={'quick': 'xbuild=all', 'thorough': 'xbuild=all'}),
        dict(name='asan', harness=H('c02x', ['harness/c02_spec.cpp'], variant='asan'), args=['--aux', C02_AUX],
             plan={'quick': 'xbuild=all', 'thorough': 'xbuild=all'}),
    ],
)


def selftest(V):
    """Model self-test against anchors independent of /repo (RFC vectors, hashlib, AES-NI, published digests)."""
    import subprocess, hashlib, glob
    lib = V.ensure_model()
    d = os.path.dirname(lib)
    exe = os.path.join(d, 'selftest')
    if not os.path.exists(exe):
        srcs = sorted(glob.glob(os.path.join(V.VERIF, 'model', 'selftest', '*.cpp')))
        r = V.sh(['g++', '-std=gnu++17', '-O2', '-maes', '-frounding-math', '-I', os.path.join(V.VERIF, 'model'), '-o', exe + '.tmp'] + srcs + [lib, '-lpthread'])
        if r.returncode != 0:
            print('selftest build failed:\n' + r.stdout)
            return 1
        os.replace(exe + '.tmp', exe)
    stamp = os.path.join(d, 'selftest.ok')
    if os.path.exists(stamp):
        return 0
    r = V.sh([exe])
    print(r.stdout.strip())
    if r.returncode != 0:
        return 1
    r = V.sh([exe, 'blake-cases'])
    n = 0
    for line in r.stdout.splitlines():
        m, k, o, dg = line.split()
        m = b'' if m == '-' else bytes.fromhex(m)
        k = b'' if k == '-' else bytes.fromhex(k)
        if hashlib.blake2b(m, digest_size=int(o), key=k).hexdigest() != dg:
            print('SELFTEST-FAIL blake2b model vs hashlib: ' + line[:200])
            return 1
        n += 1
    print('model blake2b agrees with hashlib on %d cases' % n)
    open(stamp, 'w').write('ok')
    return 0
