"""Per-property check table (harness, sub-check plans per tier, evidence texts). See DESIGN.md section 6."""
import os

WRAP_AES4 = ['-Wl,--wrap=_Z11fillAes4Rx4ILb0EEvPvmS0_', '-Wl,--wrap=_Z11fillAes4Rx4ILb1EEvPvmS0_']

COMMON_ASSUME = ['g++ 12 / clang 14 compile the repository sources faithfully',
                 'host CPU implements IEEE-754 binary64 + - * / sqrt in the four rounding modes, AES-NI, SSSE3, AVX2']


def H(name, srcs, variant='rel', **kw):
    d = dict(name=name, srcs=srcs, variant=variant)
    d.update(kw)
    return d


CHECKS = {}

CHECKS['C18'] = dict(
    level='exploration',
    rule='generated 32-bit divisors (boundary pool 2^k, 2^k+-1, extremes + uniform) that are neither 0 nor a power of two, plus runs of 4096 '
         'consecutive divisors around generated bases; oracle floor(2^(63+bitlen d)/d) in unsigned __int128 compared with randomx_reciprocal and '
         'randomx_reciprocal_fast. No-op rule: (33 no-op divisors) x dst x 8 IMUL_RCP opcodes x 10 preceding writer kinds; decoder must yield NOP and a '
         'following CBRANCH must still target the earlier writer. JIT side of the no-op rule: generated programs with a no-op IMUL_RCP between the '
         'last writer and a CBRANCH, JIT vs interpreter state equality. Non-trivial: distinct proper divisor / distinct run base / no-op divisor case; '
         'thorough enumerates all 2^32-33 divisors (exhaustive)',
    assumptions=COMMON_ASSUME + ['unsigned __int128 division of the compiler runtime (libgcc __udivti3) is correct'],
    exhaustive={'thorough': True},
    stages=[
        dict(name='rcp', harness=H('c18', ['harness/c18_reciprocal.cpp']),
             plan={'quick': 'rcp=2000000,rcp_run=4000,noop_decode=200000', 'thorough': 'rcp=20000000,rcp_run=40000,noop_decode=2000000,rcp_exhaustive=1'}),
    ],
)
