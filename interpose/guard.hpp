// Link-time interposition (DESIGN.md 4.1/4.2), guard-page mode:
//   --wrap=posix_memalign,--wrap=free : blocks >= 64 KiB are mmap-backed and placed so that they END at a PROT_NONE page
//                                       (and have one in front); smaller blocks go to the real allocator
//   --wrap=mmap,--wrap=munmap,--wrap=mprotect : every mapping the library requests gets PROT_NONE pages on both sides and is logged
// Include in exactly one TU of the harness with GUARD_DEFINE_WRAPPERS defined.
#pragma once
#include <sys/mman.h>
#include <cstdint>
#include <cstdlib>
#include <cstring>
#include <cstdio>
#include <cerrno>
#include <atomic>
#include <unistd.h>
#include <sys/syscall.h>

namespace guard {

struct Region { uint8_t* user; size_t userLen; uint8_t* map; size_t mapLen; int prot; bool isMmap; bool live; };
constexpr int MaxRegions = 4096;
struct Table {
	Region r[MaxRegions];
	int n = 0;
	std::atomic_flag lock = ATOMIC_FLAG_INIT;
	void acquire() { while (lock.test_and_set(std::memory_order_acquire)) {} }
	void release() { lock.clear(std::memory_order_release); }
};
inline Table& table() { static Table t; return t; }
struct Stats { std::atomic<uint64_t> guardedAllocs{0}, guardedMaps{0}, mprotects{0}, wxEvents{0}; };
inline Stats& stats() { static Stats s; return s; }
inline bool& enabled() { static bool e = true; return e; }

// most recent live library mapping of at least minLen bytes (e.g. the JIT code buffer created by the last call)
inline Region lastMmap(size_t minLen = 1) {
	Table& t = table(); Region out{}; t.acquire();
	for (int i = t.n - 1; i >= 0; --i) if (t.r[i].live && t.r[i].isMmap && t.r[i].userLen >= minLen) { out = t.r[i]; break; }
	t.release(); return out;
}
inline int liveCount(bool mm) { Table& t = table(); int c = 0; t.acquire(); for (int i = 0; i < t.n; ++i) if (t.r[i].live && t.r[i].isMmap == mm) ++c; t.release(); return c; }

inline void* guardedMap(size_t len, int prot, int flags, bool isMmap, size_t align) {
	const size_t P = 4096;
	size_t body = (len + P - 1) / P * P;
	size_t mapLen = body + 2 * P;
	uint8_t* m = (uint8_t*)::syscall(SYS_mmap, nullptr, mapLen, PROT_NONE, MAP_PRIVATE | MAP_ANONYMOUS | MAP_NORESERVE, -1, 0);
	if (m == MAP_FAILED) return nullptr;
	uint8_t* user = isMmap ? m + P : m + P + (body - len) / align * align;   // heap blocks: end-aligned (as far as the alignment allows)
	if (::syscall(SYS_mprotect, m + P, body, prot) != 0) { ::syscall(SYS_munmap, m, mapLen); return nullptr; }
	Table& t = table(); t.acquire();
	int slot = -1;
	for (int i = 0; i < t.n; ++i) if (!t.r[i].live) { slot = i; break; }
	if (slot < 0 && t.n < MaxRegions) slot = t.n++;
	if (slot >= 0) t.r[slot] = Region{user, len, m, mapLen, prot, isMmap, true};
	t.release();
	if (slot < 0) { fprintf(stderr, "guard: region table full\n"); abort(); }
	return user;
}
inline bool release(void* p, bool isMmap, size_t lenForMmap, bool* lengthOk = nullptr) {
	Table& t = table(); t.acquire();
	for (int i = 0; i < t.n; ++i) if (t.r[i].live && t.r[i].user == p && t.r[i].isMmap == isMmap) {
		Region r = t.r[i]; t.r[i].live = false; t.release();
		if (lengthOk) *lengthOk = !isMmap || ((lenForMmap + 4095) / 4096 == (r.userLen + 4095) / 4096);
		::syscall(SYS_munmap, r.map, r.mapLen);
		return true;
	}
	t.release(); return false;
}

} // namespace guard

#ifdef GUARD_DEFINE_WRAPPERS
#include <unistd.h>
#include <sys/syscall.h>
extern "C" {
int __real_posix_memalign(void** out, size_t align, size_t size);
void __real_free(void* p);
void* __real_mmap(void* addr, size_t len, int prot, int flags, int fd, off_t off);
int __real_munmap(void* addr, size_t len);
int __real_mprotect(void* addr, size_t len, int prot);

int __wrap_posix_memalign(void** out, size_t align, size_t size) {
	if (!guard::enabled() || size < 65536 || align > 4096) return __real_posix_memalign(out, align, size);
	void* p = guard::guardedMap(size, PROT_READ | PROT_WRITE, 0, false, align ? align : 16);
	if (!p) return ENOMEM;
	guard::stats().guardedAllocs++;
	*out = p; return 0;
}
void __wrap_free(void* p) {
	if (p && guard::release(p, false, 0)) return;
	__real_free(p);
}
void* __wrap_mmap(void* addr, size_t len, int prot, int flags, int fd, off_t off) {
	if (!guard::enabled() || addr != nullptr || fd != -1 || (flags & MAP_FIXED)) return __real_mmap(addr, len, prot, flags, fd, off);
	if ((prot & PROT_WRITE) && (prot & PROT_EXEC)) guard::stats().wxEvents++;
	void* p = guard::guardedMap(len, prot, flags, true, 4096);
	if (!p) { errno = ENOMEM; return MAP_FAILED; }
	guard::stats().guardedMaps++;
	return p;
}
int __wrap_munmap(void* addr, size_t len) {
	if (guard::release(addr, true, len)) return 0;
	return __real_munmap(addr, len);
}
int __wrap_mprotect(void* addr, size_t len, int prot) {
	guard::stats().mprotects++;
	if ((prot & PROT_WRITE) && (prot & PROT_EXEC)) guard::stats().wxEvents++;
	return __real_mprotect(addr, len, prot);
}
}
#endif
