// Link-time interposition (DESIGN.md 4.1/4.2), accounting + fault-injection mode (C15):
//   --wrap=posix_memalign,--wrap=free,--wrap=mmap,--wrap=munmap + replaced operator new/delete.
// Counts the requests the library issues inside an API call (aligned allocation, operator new called from code in the main
// executable, page mapping incl. the large-page mapping), can fail exactly the k-th of them the way the real facility fails
// (ENOMEM / std::bad_alloc / MAP_FAILED), and keeps a table of live blocks / mapped bytes.
// operator new requests made inside libstdc++ on behalf of the call (key string copy, what() string of a thrown exception) count too;
// only __cxa_allocate_exception (plain malloc inside libstdc++) is out of reach.
#pragma once
#include <cstdint>
#include <cstdlib>
#include <cstring>
#include <cerrno>
#include <new>
#include <sys/mman.h>
#include <unistd.h>
#include <sys/syscall.h>
#include <mutex>

extern "C" char __executable_start, etext;

namespace fa {
struct Block { void* p; size_t size; char kind; };   // 'a' aligned, 'n' new, 'm' mmap
struct State {
	std::mutex mu;
	bool counting = false;        // inside the API call under test
	long requests = 0;            // requests seen since arm()
	long failAt = 0;              // 1-based index of the request to fail, 0 = none
	bool failed = false;
	char failedKind = 0; size_t failedSize = 0;
	int hugeMode = 0;             // 0: pass MAP_HUGETLB through to the kernel; 1: simulate success (strip the flag); 2: simulate failure
	Block live[4096]; int nlive = 0;
	long hugeMaps = 0, shortUnmaps = 0;
	char log[2048]; int logLen = 0;
	void note(char kind, size_t sz) { if (logLen < 2000) logLen += snprintf(log + logLen, sizeof log - logLen, "%c%zu ", kind, sz); }
};
inline State& st() { static State s; return s; }
inline void arm(long failAt) { State& S = st(); S.counting = true; S.requests = 0; S.failAt = failAt; S.failed = false; S.logLen = 0; S.log[0] = 0; }
inline void disarm() { st().counting = false; st().failAt = 0; }
inline void add(void* p, size_t n, char k) { State& S = st(); std::lock_guard<std::mutex> g(S.mu); if (S.nlive < 4096) S.live[S.nlive++] = Block{p, n, k}; }
inline bool del(void* p, Block* out = nullptr) { State& S = st(); std::lock_guard<std::mutex> g(S.mu); for (int i = 0; i < S.nlive; ++i) if (S.live[i].p == p) { if (out) *out = S.live[i]; S.live[i] = S.live[--S.nlive]; return true; } return false; }
inline void totals(long& blocks, size_t& heapBytes, size_t& mappedBytes) { State& S = st(); std::lock_guard<std::mutex> g(S.mu); blocks = S.nlive; heapBytes = mappedBytes = 0; for (int i = 0; i < S.nlive; ++i) { if (S.live[i].kind == 'm') mappedBytes += S.live[i].size; else heapBytes += S.live[i].size; } }
// true if this request is the one to fail
inline bool tick(char kind, size_t size) {
	State& S = st();
	if (!S.counting) return false;
	S.requests++; S.note(kind, size);
	if (S.failAt && S.requests == S.failAt) { S.failed = true; S.failedKind = kind; S.failedSize = size; return true; }
	return false;
}
inline bool fromExecutable(void* ra) { return (char*)ra >= &__executable_start && (char*)ra < &etext; }
} // namespace fa

#ifdef FAULTALLOC_DEFINE_WRAPPERS
extern "C" {
int __real_posix_memalign(void** out, size_t align, size_t size);
void __real_free(void* p);
void* __real_mmap(void* addr, size_t len, int prot, int flags, int fd, off_t off);
int __real_munmap(void* addr, size_t len);
int __wrap_posix_memalign(void** out, size_t align, size_t size) {
	if (fa::tick('a', size)) return ENOMEM;
	int r = __real_posix_memalign(out, align, size);
	if (r == 0 && fa::st().counting) fa::add(*out, size, 'a');
	return r;
}
void __wrap_free(void* p) { if (p) fa::del(p); __real_free(p); }
void* __wrap_mmap(void* addr, size_t len, int prot, int flags, int fd, off_t off) {
	fa::State& S = fa::st();
	if (!S.counting) return __real_mmap(addr, len, prot, flags, fd, off);
	bool huge = flags & MAP_HUGETLB;
	if (fa::tick(huge ? 'H' : 'm', len)) { errno = ENOMEM; return MAP_FAILED; }
	if (huge) {
		if (S.hugeMode == 2) { errno = ENOMEM; return MAP_FAILED; }           // no huge pages configured: what most machines answer
		if (S.hugeMode == 1) { flags &= ~(MAP_HUGETLB | MAP_POPULATE); S.hugeMaps++; }
	}
	void* p = __real_mmap(addr, len, prot, flags, fd, off);
	if (p != MAP_FAILED) fa::add(p, len, huge ? 'H' : 'm');
	return p;
}
int __wrap_munmap(void* addr, size_t len) {
	fa::Block b;
	if (fa::del(addr, &b)) {
		// the kernel rounds the length up to the page size of the mapping (2 MiB for a huge-page mapping) and unmaps that much
		size_t gran = b.kind == 'H' ? (2u << 20) : 4096;
		size_t need = (b.size + gran - 1) / gran * gran, got = (len + 4095) / 4096 * 4096;
		if (b.kind == 'H' && got % gran != 0) { fa::st().shortUnmaps++; fa::add(addr, need, 'm'); got = need; }      // measured kernel rule: EINVAL, nothing is unmapped -> the whole mapping leaks
		else if (got < need) { fa::st().shortUnmaps++; fa::add((char*)addr + got, need - got, 'm'); }                   // the rest stays mapped: a leak
		if (b.kind == 'H' && fa::st().hugeMode == 1) len = (b.size + 4095) / 4096 * 4096;
	}
	return __real_munmap(addr, len);
}
}
static inline void* fa_new(size_t n, void* ra) {
	bool mine = true; (void)ra;   // every operator new issued while the call runs counts, also those made inside libstdc++ on behalf of the library (string copies, what() strings): a failure there is std::bad_alloc like anywhere else
	if (mine && fa::tick('n', n)) throw std::bad_alloc();
	void* p = malloc(n ? n : 1);
	if (!p) throw std::bad_alloc();
	if (mine && fa::st().counting) fa::add(p, n, 'n');
	return p;
}
void* operator new(size_t n) { return fa_new(n, __builtin_return_address(0)); }
void operator delete(void* p) noexcept { if (p) { fa::del(p); __real_free(p); } }
void operator delete(void* p, size_t) noexcept { operator delete(p); }
void* operator new[](size_t n) { return fa_new(n, __builtin_return_address(0)); }
void operator delete[](void* p) noexcept { operator delete(p); }
void operator delete[](void* p, size_t) noexcept { operator delete(p); }
#endif
