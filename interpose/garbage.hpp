// Link-time interposition (DESIGN.md 4.1), garbage / address-reuse mode, used by the history checks (C03, C16):
//   * while 'active', every block the library obtains (posix_memalign / operator new) is pre-filled with a generated pattern
//   * freed small blocks are poisoned and quarantined (never handed out again)
//   * big blocks (>= 1 MiB: scratchpads, caches, datasets) are mmap-backed; a freed big block is parked and, by policy,
//     handed out again AT THE SAME ADDRESS on the next request of equal size (a behaviour any conforming allocator may show)
// Build with --wrap=posix_memalign,--wrap=free ; include in one TU with GARBAGE_DEFINE_WRAPPERS.
#pragma once
#include <cstdint>
#include <cstdlib>
#include <cstring>
#include <cerrno>
#include <new>
#include <malloc.h>
#include <sys/mman.h>
#include <unistd.h>
#include <sys/syscall.h>

namespace garbage {
struct Big { uint8_t* p; size_t len; bool live; };
struct State {
	bool active = false;
	uint8_t pattern = 0xA5;
	bool reuseBig = true;
	Big big[256]; int nbig = 0;
	uint64_t filled = 0, poisoned = 0, reused = 0;
};
inline State& st() { static State s; return s; }

inline void* bigAlloc(size_t size, size_t align) {
	State& S = st();
	size_t len = (size + 4095) / 4096 * 4096;
	if (S.reuseBig) for (int i = 0; i < S.nbig; ++i) if (!S.big[i].live && S.big[i].len == len) { S.big[i].live = true; S.reused++; memset(S.big[i].p, S.pattern, len); return S.big[i].p; }
	void* p = (void*)::syscall(SYS_mmap, nullptr, len, PROT_READ | PROT_WRITE, MAP_PRIVATE | MAP_ANONYMOUS | MAP_NORESERVE, -1, 0);
	if (p == MAP_FAILED) return nullptr;
	memset(p, S.pattern, len);
	if (S.nbig < 256) S.big[S.nbig++] = Big{(uint8_t*)p, len, true};
	return p;
}
inline bool bigFree(void* p) {
	State& S = st();
	for (int i = 0; i < S.nbig; ++i) if (S.big[i].p == p && S.big[i].live) {
		S.big[i].live = false;
		// contents of a freed block are indeterminate: poison, and give the pages back so parked blocks cost nothing
		::syscall(SYS_madvise, p, S.big[i].len, MADV_DONTNEED);
		return true;
	}
	return false;
}
// drop parked blocks (end of a case)
inline void reset() {
	State& S = st();
	int k = 0;
	for (int i = 0; i < S.nbig; ++i) { if (S.big[i].live) S.big[k++] = S.big[i]; else ::syscall(SYS_munmap, S.big[i].p, S.big[i].len); }
	S.nbig = k;
}
} // namespace garbage

#ifdef GARBAGE_DEFINE_WRAPPERS
extern "C" {
int __real_posix_memalign(void** out, size_t align, size_t size);
void __real_free(void* p);
int __wrap_posix_memalign(void** out, size_t align, size_t size) {
	garbage::State& S = garbage::st();
	if (S.active && size >= (1u << 20) && align <= 4096) { void* p = garbage::bigAlloc(size, align); if (!p) return ENOMEM; *out = p; return 0; }
	int r = __real_posix_memalign(out, align, size);
	if (r == 0 && S.active) { memset(*out, S.pattern, size); S.filled++; }
	return r;
}
void __wrap_free(void* p) {
	if (!p) return;
	garbage::State& S = garbage::st();
	if (S.nbig && garbage::bigFree(p)) return;
	if (S.active) { memset(p, 0xDD, malloc_usable_size(p)); S.poisoned++; return; }   // quarantined: never reused
	__real_free(p);
}
}
void* operator new(size_t n) {
	void* p = malloc(n ? n : 1);
	if (!p) throw std::bad_alloc();
	garbage::State& S = garbage::st();
	if (S.active) { memset(p, S.pattern, n); S.filled++; }
	return p;
}
void operator delete(void* p) noexcept { if (!p) return; garbage::State& S = garbage::st(); if (S.active) { memset(p, 0xDD, malloc_usable_size(p)); S.poisoned++; return; } __real_free(p); }
void operator delete(void* p, size_t) noexcept { operator delete(p); }
void* operator new[](size_t n) { return operator new(n); }
void operator delete[](void* p) noexcept { operator delete(p); }
void operator delete[](void* p, size_t) noexcept { operator delete(p); }
#endif
