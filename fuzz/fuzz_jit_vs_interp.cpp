// libFuzzer target for C04 (and C06 under ASan): 16 control bytes (from the end) + up to 3200 program bytes; the program is
// injected into the real run() of an interpreted and a JIT-compiled VM; register file, scratchpad and MXCSR must agree.
#define RXENV_DEFINE_WRAPPERS
#include "fuzz/fz.hpp"
#include "harness/progrun.hpp"

static bool inited = false;
extern "C" int LLVMFuzzerTestOneInput(const uint8_t* data, size_t size) {
	if (!inited) { env.init(true); inited = true; }
	fz::begin();
	fz::Data d{data, size};
	pg::ProgCase c;
	uint64_t ctl = d.take(2);
	c.v2 = ctl & 1; c.hardAes = (ctl >> 1) & 1; c.secure = (ctl >> 2) & 1; c.fast = ((ctl >> 3) & 7) != 0; c.fprc = (ctl >> 6) & 3; c.spadClass = (int)((ctl >> 8) % 5);
	c.spadSeed = d.take(8);
	c.prog.assign(pg::ProgramBytes, 0);
	// missing program bytes are filled with the NOP-equivalent word so short inputs are valid small programs
	std::vector<uint8_t> nop = pg::nopBytes();
	for (size_t i = 128; i + 8 <= pg::ProgramBytes; i += 8) memcpy(&c.prog[i], nop.data(), 8);
	memcpy(c.prog.data(), d.p, std::min(d.n, pg::ProgramBytes));
	std::string why = compareEngines(c);
	if (!why.empty()) { FILE* f = fopen((std::string(getenv("FZ_REPLAY_DIR") ? getenv("FZ_REPLAY_DIR") : ".") + "/fuzz-jit-last.txt").c_str(), "w"); if (f) { fprintf(f, "sub=jit_vs_interp\n%s", c.dump().c_str()); fclose(f); } fz::violation(why); }
	pg::Feat f = pg::classify(c.prog.data(), c.nInstr());
	fz::label(c.fast ? "mode:fast" : "mode:light"); fz::label(c.v2 ? "v2" : "v1");
	if (f.srcEqDstMem || f.r4r5 || f.rcpNoop || f.cfround || f.cbranch || f.storeL3) fz::nontrivial(c.hash());
	return 0;
}
