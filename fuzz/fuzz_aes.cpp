// libFuzzer target for C12: 64-byte seed + buffer through the four AES functions (both instantiations) vs the FIPS-197 model.
#include "fuzz/fz.hpp"
#include "ref_aes.hpp"
#include "aes_hash.hpp"
#include <algorithm>

extern "C" int LLVMFuzzerTestOneInput(const uint8_t* data, size_t size) {
	fz::begin();
	fz::Data d{data, size};
	unsigned blocks = d.range(0, 80);
	alignas(16) uint8_t seed[64]; for (int i = 0; i < 64; ++i) seed[i] = (uint8_t)d.take(1);
	size_t n = (size_t)blocks * 64;
	uint8_t* buf; if (posix_memalign((void**)&buf, 64, n + 64)) return 0;
	for (size_t i = 0; i < n; ++i) buf[i] = d.n ? d.p[i % d.n] ^ (uint8_t)(i / (d.n ? d.n : 1)) : (uint8_t)i;
	std::vector<uint8_t> orig(buf, buf + n);
	alignas(16) uint8_t h1[64], h2[64], s1[64], s2[64]; uint8_t hm[64], sm[64];
	hashAes1Rx4<true>(buf, n, h1); hashAes1Rx4<false>(buf, n, h2); ref::aesHash1R(buf, n, hm);
	if (memcmp(h1, hm, 64) || memcmp(h2, hm, 64)) fz::violation("hashAes1Rx4 differs from the specification (soft/hard)");
	std::vector<uint8_t> m(n + 1); memcpy(sm, seed, 64); ref::aesGenerator1R(sm, m.data(), n);
	memcpy(s1, seed, 64); hashAndFillAes1Rx4<true>(buf, n, h1, s1);
	if (memcmp(h1, hm, 64) || memcmp(buf, m.data(), n)) fz::violation("hashAndFillAes1Rx4<soft> != (AesHash1R(buffer), AesGenerator1R(seed))");
	memcpy(buf, orig.data(), n); memcpy(s2, seed, 64); hashAndFillAes1Rx4<false>(buf, n, h2, s2);
	if (memcmp(h2, hm, 64) || memcmp(buf, m.data(), n)) fz::violation("hashAndFillAes1Rx4<hard> != (AesHash1R(buffer), AesGenerator1R(seed))");
	memcpy(s1, seed, 64); memcpy(sm, seed, 64); fillAes4Rx4<true>(s1, n, buf); ref::aesGenerator4R(sm, m.data(), n);
	if (memcmp(buf, m.data(), n)) fz::violation("fillAes4Rx4<soft> differs from the specification");
	memcpy(s2, seed, 64); fillAes4Rx4<false>(s2, n, buf);
	if (memcmp(buf, m.data(), n)) fz::violation("fillAes4Rx4<hard> differs from the specification");
	free(buf);
	fz::label(n < 4096 ? "size<prefetch-distance" : "size>=prefetch-distance");
	fz::nontrivial(fz::fnv(seed, 64, fz::fnv(orig.data(), n, blocks)));
	return 0;
}
