// libFuzzer target for C05: a short program (<= 64 instruction words) on a generated machine state, executed one instruction at a
// time by the implementation's decoder/executor and by the specification model (same oracle as harness/c05_step.cpp).
// Input: [128 config bytes][64 bytes r0-r7][64 bytes f/e memory values][8*n instruction words] ... [8 bytes spad seed][2 control bytes]
#include "fuzz/fz.hpp"
#include "harness/stepcheck.hpp"

extern "C" int LLVMFuzzerTestOneInput(const uint8_t* data, size_t size) {
	static bool init = false;
	if (!init) { if (posix_memalign((void**)&spadImpl, 64, RANDOMX_SCRATCHPAD_L3) || posix_memalign((void**)&spadRef, 64, RANDOMX_SCRATCHPAD_L3)) abort(); init = true; }
	fz::begin();
	fz::Data d{data, size};
	StepCase c;
	uint64_t ctl = d.take(2);
	c.v2 = ctl & 1; c.fprc = (ctl >> 1) & 3; c.spadClass = (int)((ctl >> 3) % 5); c.spadSeed = d.take(8);
	std::vector<uint8_t> front(d.p, d.p + d.n); front.resize(std::max<size_t>(front.size(), 256 + 8), 0);
	c.cfg.assign(front.begin(), front.begin() + 128);
	memcpy(c.r, &front[128], 64); memcpy(c.fe, &front[192], 64);
	size_t n = std::min<size_t>((front.size() - 256) / 8, 64);
	c.words.assign(front.begin() + 256, front.begin() + 256 + 8 * n);
	std::string why = stepBody(c);
	if (!why.empty()) { FILE* f = fopen((std::string(getenv("FZ_REPLAY_DIR") ? getenv("FZ_REPLAY_DIR") : ".") + "/fuzz-step-last.txt").c_str(), "w"); if (f) { fprintf(f, "sub=step\n%s", c.dump().c_str()); fclose(f); } fz::violation(why); }
	if (n > 0 && fz::st().evals % 20000 == 1) fz::sample("[fuzz:step] v2=" + std::to_string(c.v2) + " fprc=" + std::to_string(c.fprc) + " words=" + fz::hex(c.words.data(), std::min<size_t>(c.words.size(), 64)) + (c.words.size() > 64 ? "..." : ""));
	fz::label(c.v2 ? "v2" : "v1");
	fz::label(n == 0 ? "words:0" : n < 8 ? "words:1-7" : n < 32 ? "words:8-31" : "words:32-64");
	if (n > 0) fz::nontrivial(fz::fnv(c.words.data(), c.words.size(), c.v2));   // non-trivial: at least one instruction executed
	return 0;
}
