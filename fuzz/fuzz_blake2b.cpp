// libFuzzer target for C11: streaming/one-shot Blake2b vs the RFC 7693 model; invalid parameters rejected without output.
#include "fuzz/fz.hpp"
#include "ref_blake2b.hpp"
#include "blake2/blake2.h"
#include <algorithm>

extern "C" int LLVMFuzzerTestOneInput(const uint8_t* data, size_t size) {
	fz::begin();
	fz::Data d{data, size};
	unsigned outlen = d.range(0, 70), keylen = d.range(0, 70), nchunks = d.range(1, 6);
	std::vector<uint32_t> cuts; for (unsigned i = 0; i + 1 < nchunks; ++i) cuts.push_back((uint32_t)d.take(2));
	uint8_t key[80]; for (unsigned i = 0; i < 80; ++i) key[i] = (uint8_t)(d.take(1) ^ i);
	const uint8_t* msg = d.p; size_t mlen = d.n;
	uint8_t out[96], exp[64]; memset(out, 0xA5, sizeof out);
	bool valid = outlen >= 1 && outlen <= 64 && keylen <= 64;
	int r = blake2b(out, outlen, msg, mlen, keylen ? key : nullptr, keylen);
	if (!valid) {
		if (r >= 0) fz::violation("invalid parameters accepted: outlen " + std::to_string(outlen) + " keylen " + std::to_string(keylen));
		for (size_t i = 0; i < sizeof out; ++i) if (out[i] != 0xA5) fz::violation("output written although parameters were rejected");
		fz::label("invalid-rejected"); fz::nontrivial(fz::fnv(&outlen, 4, keylen));
		return 0;
	}
	if (r != 0) fz::violation("valid parameters rejected");
	ref::b2b(exp, outlen, msg, mlen, key, keylen);
	if (memcmp(out, exp, outlen) != 0) fz::violation("one-shot digest differs from RFC 7693 model: msg " + fz::hex(msg, std::min<size_t>(mlen, 300)) + " outlen " + std::to_string(outlen) + " keylen " + std::to_string(keylen));
	for (size_t i = outlen; i < sizeof out; ++i) if (out[i] != 0xA5) fz::violation("blake2b wrote beyond outlen");
	// streaming in the generated chunking
	blake2b_state S;
	if ((keylen ? blake2b_init_key(&S, outlen, key, keylen) : blake2b_init(&S, outlen)) != 0) fz::violation("init rejected valid parameters");
	for (auto& c : cuts) c = mlen ? c % (mlen + 1) : 0;
	std::sort(cuts.begin(), cuts.end()); cuts.push_back((uint32_t)mlen);
	size_t pos = 0; for (uint32_t c : cuts) { blake2b_update(&S, msg + pos, c - pos); pos = c; }
	uint8_t out2[64]; if (blake2b_final(&S, out2, outlen) != 0) fz::violation("final failed");
	if (memcmp(out2, exp, outlen) != 0) fz::violation("streamed digest differs from the model / single call");
	fz::label(mlen > 128 ? "multi-block" : "single-block"); fz::label(keylen ? "keyed" : "unkeyed");
	if (mlen > 128 || keylen || cuts.size() > 1) fz::nontrivial(fz::fnv(msg, mlen, fz::fnv(key, keylen, outlen)));
	if (fz::st().evals % 5000 == 1) fz::sample("msglen=" + std::to_string(mlen) + " outlen=" + std::to_string(outlen) + " keylen=" + std::to_string(keylen) + " chunks=" + std::to_string(cuts.size()));
	return 0;
}
