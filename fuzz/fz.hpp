// Minimal statistics/violation runtime for libFuzzer targets (second engine, DESIGN.md sections 6/14).
// A semantic violation writes the case as a replay file, flushes the counters and traps (libFuzzer then saves the crash-* input).
#pragma once
#include <cstdint>
#include <cstdio>
#include <cstdlib>
#include <cstring>
#include <map>
#include <string>
#include <unordered_set>
#include <vector>

namespace fz {
struct Stats { uint64_t evals = 0; std::map<std::string, uint64_t> labels; std::unordered_set<uint64_t> nt; std::vector<std::string> samples; bool registered = false; };
inline Stats& st() { static Stats s; return s; }
inline uint64_t fnv(const void* p, size_t n, uint64_t h = 1469598103934665603ULL) { const uint8_t* b = (const uint8_t*)p; for (size_t i = 0; i < n; ++i) { h ^= b[i]; h *= 1099511628211ULL; } return h; }
inline std::string hex(const void* p, size_t n) { static const char* d = "0123456789abcdef"; std::string s; const uint8_t* b = (const uint8_t*)p; for (size_t i = 0; i < n; ++i) { s += d[b[i] >> 4]; s += d[b[i] & 15]; } return s; }
inline void flush() {
	const char* out = getenv("FZ_OUT"); if (!out) return;
	Stats& S = st(); std::string tmp = std::string(out) + ".tmp"; FILE* f = fopen(tmp.c_str(), "w"); if (!f) return;
	fprintf(f, "{\"evaluations\": %llu, \"labels\": {", (unsigned long long)S.evals);
	bool first = true; for (auto& kv : S.labels) { fprintf(f, "%s\"%s\": %llu", first ? "" : ", ", kv.first.c_str(), (unsigned long long)kv.second); first = false; }
	fprintf(f, "}, \"nontrivial_hashes\": ["); first = true; for (auto h : S.nt) { fprintf(f, "%s%llu", first ? "" : ",", (unsigned long long)(h >> 11)); first = false; }
	fprintf(f, "], \"nontrivial_overflow\": 0, \"samples\": ["); first = true; for (auto& x : S.samples) { fprintf(f, "%s\"%s\"", first ? "" : ", ", x.c_str()); first = false; }
	fprintf(f, "], \"failures\": [], \"subchecks\": {}}\n"); fclose(f); rename(tmp.c_str(), out);
}
inline void begin() { Stats& S = st(); if (!S.registered) { S.registered = true; atexit(flush); } S.evals++; }
inline void label(const std::string& l) { st().labels[l]++; }
inline void nontrivial(uint64_t h) { if (st().nt.size() < 300000) st().nt.insert(h); }
inline void sample(const std::string& s) { if (st().samples.size() < 3) st().samples.push_back(s); }
[[noreturn]] inline void violation(const std::string& why) {
	fprintf(stderr, "FUZZ-VIOLATION: %s\n", why.c_str());
	flush();
	__builtin_trap();
}
// tiny data provider: integral values from the end, payload from the front
struct Data {
	const uint8_t* p; size_t n;
	uint64_t take(int bytes) { uint64_t v = 0; for (int i = 0; i < bytes && n > 0; ++i) v = (v << 8) | p[--n]; return v; }
	uint32_t range(uint32_t lo, uint32_t hi) { return lo + (uint32_t)(take(2) % (hi - lo + 1)); }
};
} // namespace fz
